#!/bin/bash
# Statement coverage of memefish by the quick checks (reported in DESIGN.md; decides nothing).
# usage: lib/coverage.sh [IDs...]   -> $V/COVERAGE.md
cd "$(dirname "$0")/.."; V=$PWD; R=${VERIF_REPO:-${VP_RUN_REPO:-/repo}}; export VERIF_REPO=$R
ids=${@:-C01 C02 C03 C04 C05 C06 C07 C08 C09 C10 C11 C12 C13 C14 C15 C16 C17 C18 C19 C20}
dir=$V/work/cover; rm -rf $dir; mkdir -p $dir
rm -f work/bin/mfverif*
for i in $ids; do VERIF_COVER=$dir ./check $i quick > /dev/null 2> work/cover-$i.err; echo "$i exit=$?"; done
rm -f work/bin/mfverif*     # the next check rebuilds without instrumentation
(cd $R && GOFLAGS=-mod=mod go tool covdata textfmt -i=$dir -o $V/work/cover.txt)
V=$V R=$R python3 - <<'PY' > $V/COVERAGE.md
import re, collections, os
V = os.environ['V']; R = os.environ['R']
tot = collections.Counter(); cov = collections.Counter(); unc = collections.defaultdict(list)
for l in open(V + '/work/cover.txt'):
    m = re.match(r'(.*):(\d+)\.(\d+),(\d+)\.(\d+) (\d+) (\d+)', l)
    if not m: continue
    f, l1, c1, l2, c2, n, cnt = m.groups()
    if 'memefish/' not in f or 'mfverif' in f: continue
    f = f.split('memefish/')[-1]
    tot[f] += int(n)
    if int(cnt) > 0: cov[f] += int(n)
    else: unc[f].append((int(l1), int(l2)))
print("# Statement coverage of memefish by the quick tier of all checks\n")
print("| file | covered | statements | % |\n|---|---|---|---|")
for f in sorted(tot):
    if tot[f] and not f.startswith("verif_"): print("| %s | %d | %d | %.1f |" % (f, cov[f], tot[f], 100.0 * cov[f] / tot[f]))
print("\n## Uncovered blocks\n")
for f in sorted(unc):
    if f.startswith("verif_") or f.startswith("tools/") or f == "ast/ast.go": continue   # ast.go: only the empty marker methods
    try: src = open(R + '/' + f).read().split('\n')
    except Exception: continue
    print("### %s\n" % f)
    for (a, b) in sorted(set(unc[f])):
        print("* %d-%d: `%s`" % (a, b, " ".join(x.strip() for x in src[a-1:b])[:140].replace('`', "'")))
    print()
PY
rm -rf $dir $V/work/cover.txt
head -25 $V/COVERAGE.md
