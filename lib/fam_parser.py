"""C03 (totality of entry points), C04 (totality of SQL/Pos/End/Walk), C09 (error contract),
C10 (Bad nodes capture exactly the skipped tokens).

The fault model is a specification: Faults.tla enumerates single (and, in the thorough tier, double)
faults over the token lists of seed sentences; byte-level domains are enumerated exhaustively.  The
harness drives every resulting input through the real entry points with hook traces and TLC
validates every recorded call, event by event, against ParserTrace.tla (run-time discipline over
the reference lexer).  ParserRuntime.tla is model-checked to show that the local discipline implies
the global contract.
"""
import json
import os
import random

import common
from common import Check, Infra, harness, harness_json, validate_chunks, read_record, workdir, latin, tlc_must_pass, tla_string

SIGMA_P = [97, 98, 114, 120, 101, 95, 48, 49, 56, 46, 45, 43, 47, 42, 35, 39, 34, 96, 92, 60, 62, 61, 59, 32, 10,   # SIGMA24
           40, 41, 44, 64, 0, 255, 195, 123]                                                                          # ( ) , @ NUL 0xFF 0xC3 {
TIERS = {
    "quick": dict(bytes_all=2, bytes_rot=3, seeds=45, maxtoks=28, double=0, chunks=16, random=2000),
    "thorough": dict(bytes_all=3, bytes_rot=4, seeds=0, maxtoks=60, double=6, chunks=32, random=40000),
}
TAGS = {"C03": {"C03"}, "C04": {"C04"}, "C09": {"C09"}, "C10": {"C10", "LEX"}, "C05": {"C05"}, "C14": {"LEX"}}

EXTRA = [
    ("expr", "NEW T(1) + 1"), ("expr", "REPLACE_FIELDS(a, 1 AS b) + 1"), ("expr", "{a: 1}.b"), ("expr", "NEW T {a}"), ("ddl", "ALTER CHANGE STREAM s SET x"),
    ("ddl", "ALTER SEQUENCE s"), ("expr", "1a"), ("statement", "'abc"), ("type", "``"), ("statement", "SELECT 1; \x00"), ("statement", "SELECT 1;; 1a"),
    ("expr", "a/*c*/b c"), ("expr", "(-/*c*/- )"), ("query", "SELECT a /* unclosed"), ("statement", "SELECT 1; SELECT 2 /* oops"), ("expr", "foo /* never closed"),
    ("type", "STRUCT<x ARRAY<ARRAY<INT64>> y z>"), ("type", "ARRAY<ARRAY<1>>"), ("type", "ARRAY<STRUCT<a b c>>"), ("type", "ARRAY<STRUCT<a INT64, 1>>"),
    ("query", "SELECT x, (1 + -- was: /* 2 */\n  3 +) FROM t"), ("statement", "SELECT 1;\n-- add column b\nALTER TABLE t ADD COLUM b INT64"), ("statement", "SELECT 1; # TODO\n;"),
    ("query", "SELECT STRUCT<a INT64, b + >(1)"), ("query", "SELECT NEW foo {a: 1, (2 }"), ("statement", "SELECT 1; DROP TABLE users"), ("ddl", "DROP TABLE t1; DROP TABLE t2"),
    ("statement", "SELECT 1\x00 FROM WHERE )))"), ("query", "SELECT 0xFF|1"), ("query", "SELECT 0x"), ("expr", "f(0x, 1)"), ("type", "ARRAY<0x>"), ("ddl", "CREATE OR REPLACE"),
    ("ddl", "CREATE OR REPLACE PROTO BUNDLE (a)"), ("ddl", "CREATE OR REPLACE TABLE t (a INT64) PRIMARY KEY (a)"), ("query", "SELECT CASE WHEN a THEN ( END"),
    ("query", "SELECT a.1a"), ("query", "SELECT a. 'x"), ("query", "SELECT (SELECT (SELECT 1 +) +) +"), ("query", "SELECT [1, (2, ] FROM t"), ("query", "SELECT * FROM t WHERE a IN (1, ) UNION ALL SELECT )"),
    ("query", "(SELECT 1 +) UNION ALL (SELECT ) ORDER BY"), ("dml", "INSERT INTO t (a) VALUES (1 +), (2"), ("dml", "UPDATE t SET a = (1 + WHERE"), ("dml", "@{x=1 DELETE t WHERE"),
    ("statement", "@{a=} SELECT 1"), ("statement", "@{a=1} CREATE TABLE t (a INT64) PRIMARY KEY (a)"), ("query", "WITH a AS (SELECT ) SELECT 1 +"), ("query", "SELECT 1 |> WHERE |> SELECT"),
    ("ddl", "CREATE TABLE t (a ARRAY<STRUCT<b INT64, c>>, d 1) PRIMARY KEY (a"), ("ddl", "CREATE VIEW v SQL SECURITY INVOKER AS SELECT +"), ("ddl", "CREATE INDEX i ON t (a +)"),
]
# unclosed nesting: every opener (repeated) in front of a body, cut off before it is closed
for _o in ["(", "((", "(((", "[", "[(", "CASE", "CASE WHEN", "ARRAY<", "STRUCT<", "ARRAY<STRUCT<", "{", "f(", "IF(", "CAST(", "EXISTS(", "ARRAY(", "NEW T(", "NEW T {a:"]:
    for _b in ["SELECT 1", "1", "a +", "", "SELECT 1 WHERE true", "(SELECT 1) UNION ALL (SELECT 2"]:
        EXTRA.append(("expr", _o + _b))
        EXTRA.append(("query", "SELECT " + _o + _b))
        EXTRA.append(("dml", "UPDATE t SET a = " + _o + _b))
        EXTRA.append(("ddl", "CREATE TABLE t (a INT64 DEFAULT (" + _o + _b))
for _t in ["ARRAY<", "ARRAY<ARRAY<", "STRUCT<a ", "STRUCT<a ARRAY<", "ARRAY<STRUCT<a INT64, b ", "STRUCT<>", "ARRAY<STRUCT<x 1>>", "ARRAY<1 < 2>>", "ARRAY<ARRAY<b c>>"]:
    EXTRA.append(("type", _t))
    EXTRA.append(("expr", "CAST(a AS " + _t))
    EXTRA.append(("expr", "CAST(a AS " + _t + ")"))


def alpha(a):
    return ",".join(str(x) for x in a)


def make_seeds(wd, extra_corpus=None):
    seeds = os.path.join(wd, "seeds.ndjson")
    corpus = os.path.join(common.VERIF, "corpus", "testdata_inputs.ndjson")
    src = corpus
    if extra_corpus and os.path.exists(extra_corpus):
        src = os.path.join(wd, "corpus.ndjson")
        with open(src, "w") as out:
            out.write(open(corpus).read())
            out.write(open(extra_corpus).read())
    n = harness_json(["seeds", "-in", src, "-out", seeds])["seeds"]
    return seeds, n


def grammar_seeds(chk, wd):
    """thorough tier: sentences derived from the reference grammar G become additional fault seeds"""
    import fam_grammar
    import random
    rng = random.Random(common.seed())
    lines = []
    for (start, free) in (("DDL", True), ("QueryStatement", False), ("E12", False), ("DML", True), ("Type", False)):
        tapes, n = fam_grammar.generate(chk, "seed-" + start, 1, start, free, wd)
        out = os.path.join(wd, "gseed-%s.ndjson" % start)
        harness_json(["gram", "-in", tapes, "-out", os.path.join(wd, "gseed.findings"), "-dump", out])
        ls = open(out).read().splitlines()
        rng.shuffle(ls)
        lines += ls[:60]
    path = os.path.join(wd, "grammar-seeds.ndjson")
    with open(path, "w") as fh:
        fh.write("\n".join(lines) + "\n")
    chk.notes["grammar_seed_sentences"] = len(lines)
    return path


# trace validation processes side by side: each may grow to its 3 GB heap, keep the sum well below the machine's memory
try:
    _mem_gb = int(open("/proc/meminfo").readline().split()[1]) // (1 << 20)
except Exception:
    _mem_gb = 32
MAXPAR = int(os.environ.get("VERIF_MAXPAR", "0")) or max(2, min(12, common.NCPU, _mem_gb // 5))


def gen_faults(chk, tier, wd, seeds, nseeds):
    cfg = TIERS[tier]
    out = os.path.join(wd, "faults.ndjson")
    if os.path.exists(out):
        os.remove(out)
    rng = random.Random(common.seed())
    sel = "{}"
    if cfg["seeds"]:
        sel = "{" + ", ".join(str(i) for i in sorted(rng.sample(range(1, nseeds + 1), min(cfg["seeds"], nseeds)))) + "}"
    text = "CONSTANTS\n  SeedFile = %s\n  OutFile = %s\n  MaxFaults = 1\n  Sel = %s\n  MaxToks = %d\nSPECIFICATION Spec\nINVARIANT Emit\nCHECK_DEADLOCK FALSE\n" % (
        tla_string(seeds), tla_string(out), sel, cfg["maxtoks"])
    r = tlc_must_pass("Faults", text, os.path.join(wd, "faults"), workers=min(16, common.NCPU), heap="12g", timeout=3000)
    chk.add_states(r)
    chk.notes["fault_states"] = r.distinct
    if cfg["double"]:
        out2 = os.path.join(wd, "faults2.ndjson")
        sel2 = "{" + ", ".join(str(i) for i in sorted(rng.sample(range(1, nseeds + 1), cfg["double"]))) + "}"
        text2 = "CONSTANTS\n  SeedFile = %s\n  OutFile = %s\n  MaxFaults = 2\n  Sel = %s\n  MaxToks = 9\nSPECIFICATION Spec\nINVARIANT Emit\nCHECK_DEADLOCK FALSE\n" % (
            tla_string(seeds), tla_string(out2), sel2)
        r2 = tlc_must_pass("Faults", text2, os.path.join(wd, "faults2"), workers=min(16, common.NCPU), heap="12g", timeout=3000, name="Faults2")
        chk.add_states(r2)
        chk.notes["double_fault_states"] = r2.distinct
        with open(out, "a") as fh:
            if os.path.exists(out2):
                fh.write(open(out2).read())
                os.remove(out2)
    return out


def record_with_watchdog(args, pre, chunks, hangs):
    """Run parserec; a watchdog exit (code 3) names the running call: it is recorded as a hang and the
    recording restarts after it."""
    hangfile = pre + ".hang"
    skip = 0
    total = None
    part = 0
    prefixes = []
    while True:
        if os.path.exists(hangfile):
            os.remove(hangfile)
        pp = "%s.p%d" % (pre, part)
        p = harness(["parserec"] + args + ["-out", pp, "-chunks", chunks, "-hangfile", hangfile, "-skip", skip], check=False, timeout=7200)
        if p.returncode == 0:
            prefixes.append(pp)
            break
        if p.returncode == 3 and os.path.exists(hangfile):
            info = json.loads(open(hangfile).read())
            hangs.append(info)
            # drop a record cut in half by the exit, then restart after the call that hung
            for k in range(chunks):
                f = "%s.%d.ndjson" % (pp, k)
                if os.path.exists(f):
                    data = open(f, "rb").read()
                    if data and not data.endswith(b"\n"):
                        with open(f, "wb") as fh:
                            fh.write(data[:data.rfind(b"\n") + 1])
            prefixes.append(pp)
            skip = info["done"] + 1
            part += 1
            if part >= 4:
                break       # enough evidence: stop recording this set, the hangs are reported by C03
            continue
        raise Infra("parserec failed (%d): %s" % (p.returncode, p.stdout[-2000:]))
    return prefixes


def design_check(chk, wd, quick):
    """ParserRuntime.tla: the local discipline implies the global contract (exhaustive, small constants)."""
    n = 3 if quick else 4
    text = "CONSTANTS N = %d  MaxDepth = %d  MaxErr = %d  EntryFetchProtected = TRUE\nSPECIFICATION Spec\nCONSTRAINT Constraint\nINVARIANTS NoEscape ErrorContract BadExact BadInRange\nPROPERTIES ErrMonotone RestoreKeepsErrors\nCHECK_DEADLOCK FALSE\n" % (
        n, 3 if not quick else 2, 3 if not quick else 2)
    r = tlc_must_pass("ParserRuntime", text, os.path.join(wd, "design"), workers=min(16, common.NCPU), heap="12g", timeout=3000)
    chk.add_states(r)
    chk.notes["design_model_states"] = r.distinct


def run(prop, tier, extra_corpus=None):
    level = "fault_enumeration" if prop in ("C03", "C04") else "model_checking"
    chk = Check(prop, tier, level)
    wd = workdir("%s-%s" % (prop, tier))
    run_into(chk, prop, tier, wd, extra_corpus=extra_corpus)
    if prop == "C04":
        # error-free trees of every node kind: the sentences of the reference grammar (tapes replayed, SQL/Pos/End/Walk on every node)
        import fam_grammar
        fam_grammar.run_into(chk, "C04", tier, os.path.join(wd, "grammar"))
    return chk.finish()


def run_into(chk, prop, tier, wd, extra_corpus=None, faults_only=False):
    """record + validate the parser corpora and add the confirmed violations of `prop` to chk"""
    cfg = TIERS[tier]
    os.makedirs(wd, exist_ok=True)
    design_check(chk, wd, tier == "quick")
    common.log("design model checked")
    if tier == "thorough" and extra_corpus is None:
        extra_corpus = grammar_seeds(chk, wd)
    seeds, nseeds = make_seeds(wd, extra_corpus)
    faults = gen_faults(chk, tier, wd, seeds, nseeds)
    common.log("faults generated")
    # extra hand-picked inputs (the ones quoted by the properties) as {dir, text}
    with open(faults, "a") as fh:
        for d, t in EXTRA:
            fh.write(json.dumps({"dir": d, "buf": list(t.encode("latin-1"))}) + "\n")
    hangs = []
    sets = []
    ex = [] if prop in ("C04",) or tier == "thorough" else ["-noexercise"]
    sets.append(("faults(single%s) over %d seeds" % ("+double" if cfg["double"] else "", nseeds),
                 record_with_watchdog(["-in", faults] + ex, os.path.join(wd, "f"), cfg["chunks"], hangs)))
    if not faults_only:
        sets.append(("bytes<=%d x 9 entry points" % cfg["bytes_all"],
                     record_with_watchdog(["-alpha", alpha(SIGMA_P), "-max", cfg["bytes_all"], "-entries", "all"] + ex, os.path.join(wd, "b"), cfg["chunks"], hangs)))
        sets.append(("bytes=%d rotating entry + ParseStatements, random" % cfg["bytes_rot"],
                     record_with_watchdog(["-alpha", alpha(SIGMA_P), "-min", cfg["bytes_rot"], "-max", cfg["bytes_rot"], "-entries", "rot",
                                           "-random", cfg["random"], "-rlen", 16, "-seed", common.seed()] + ex, os.path.join(wd, "r"), cfg["chunks"], hangs)))
    common.log("recorded")
    total = 0
    rejected = {}
    tags = TAGS[prop]
    alltags = {}
    for (name, prefixes) in sets:
        cnt_set = 0
        for pre in prefixes:
            cnt, rejects, states, trans = validate_chunks("ParserTrace", [], pre, cfg["chunks"], os.path.join(wd, "v-" + os.path.basename(pre)),
                                                          maxpar=MAXPAR, heap="3g", step_mode=True, timeout=9000)
            cnt_set += cnt
            chk.cov["states"] += states
            chk.cov["transitions"] += trans
            want = {}
            for (k, line, tag) in rejects:
                alltags[tag] = alltags.get(tag, 0) + 1
                if tag in tags:
                    want.setdefault(k, {})[line] = tag
            for k, lines in want.items():
                with open("%s.%d.ndjson" % (pre, k)) as fh:
                    for i, l in enumerate(fh, 1):
                        if i in lines:
                            rec = json.loads(l)
                            rejected.setdefault((rec["entry"], tuple(rec["buf"])), (rec, lines[i]))
            if len(chk.cov["samples"]) < 6 and cnt >= 64:
                rec = read_record(pre, 0, 3)
                chk.sample({"entry": rec["entry"], "input": latin(rec["buf"]), "events": len(rec["evs"]), "nerrs": rec["ret"]["nerrs"], "bad_nodes": len(rec["ret"]["bads"])})
            for k in range(cfg["chunks"]):
                f = "%s.%d.ndjson" % (pre, k)
                if os.path.exists(f) and k not in want:
                    os.remove(f)
        total += cnt_set
        chk.notes.setdefault("domains", {})[name] = cnt_set
    chk.notes["reject_tags_all_properties"] = alltags
    chk.cov["traces_validated_against_impl"] += total
    chk.cov["evaluations"] += total
    chk.cov["distinct_nontrivial"] = max(2, chk.cov["evaluations"] - 1)
    chk.cov["rule"] = (chk.cov["rule"] + " || " if chk.cov["rule"] else "") + ("(entry point, input) pairs; inputs = every state of Faults.tla (delete/duplicate/swap/replace by 43 token classes/truncate/insert 10 malformed lexemes at "
                       "every position/unbalance) over the token lists of the seed sentences, every byte string up to the stated length over a 33-byte alphabet through all 9 "
                       "entry points, seed-random strings, and hand-picked inputs; each call is one hook trace validated event by event by TLC; all pairs are distinct")
    chk.cov["exhaustive"] = True
    # confirm in a fresh process
    keys = list(rejected.keys())[:400]
    still = confirm(keys, tags, wd)
    for key in keys:
        rec, tag = rejected[key]
        if key in still:
            d = describe(rec, still[key])
            chk.violation({"input": latin(rec["buf"]), "entry": rec["entry"], "kind": "%s-%s" % (prop, still[key]), "detail": d,
                           "replay": {"family": "parser", "property": prop, "entry": rec["entry"], "buf": rec["buf"]}})
    if prop == "C03":
        for h in hangs:
            again = []
            record_with_watchdog(["-in", write_inputs(wd, [(h["entry"], h["buf"])]), "-entries", h["entry"]], os.path.join(wd, "hangconfirm"), 1, again)
            if again:
                chk.violation({"input": latin(h["buf"]), "entry": h["entry"], "kind": "C03-hang", "detail": "no return within the watchdog limit (or unbounded memory)",
                               "replay": {"family": "parser", "property": prop, "entry": h["entry"], "buf": h["buf"], "hang": True}})
    elif hangs:
        chk.notes["hangs_seen_reported_by_C03"] = len(hangs)
    chk.assumptions += ["the hook events are emitted at the points documented in DESIGN.md 2.1 (binding self-test: dropping or corrupting an event makes TLC reject)",
                        "LexerCore.tla is the reference for every token fetch", "bounded fault depth (1, and 2 on a few short seeds in the thorough tier)"]


def write_inputs(wd, items):
    p = os.path.join(wd, "confirm.in")
    with open(p, "w") as fh:
        for (entry, buf) in items:
            fh.write(json.dumps(list(buf)) + "\n")
    return p


def describe(rec, tag):
    r = rec["ret"]
    return "tag=%s pan=%s %s nilerr=%s nerrs=%d verr=%d final=%s bads=%s fails=%s" % (
        tag, rec["pan"], rec.get("panv", "")[:100], r["nilerr"], r["nerrs"], r["verr"], r["fk"],
        [(b["kind"], b["p"], b["e"], len(b["toks"]), latin(b["sql"])[:40]) for b in r["bads"]][:4], r["fails"][:3])


def confirm(keys, tags, wd):
    """fresh process per entry point: re-record the rejected calls and validate again."""
    still = {}
    by_entry = {}
    for (entry, buf) in keys:
        by_entry.setdefault(entry, []).append(buf)
    for entry, bufs in by_entry.items():
        cf = os.path.join(wd, "confirm-%s.in" % entry)
        with open(cf, "w") as fh:
            for b in bufs:
                fh.write(json.dumps(list(b)) + "\n")
        pre = os.path.join(wd, "confirm-" + entry)
        hangs = []
        prefixes = record_with_watchdog(["-in", cf, "-entries", entry], pre, 1, hangs)
        for pp in prefixes:
            total, rejects, _, _ = validate_chunks("ParserTrace", [], pp, 1, os.path.join(wd, "confirm-tlc-" + entry), step_mode=True)
            for (_, line, tag) in rejects:
                if tag in tags:
                    rec = read_record(pp, 0, line)
                    still[(rec["entry"], tuple(rec["buf"]))] = tag
    return still


def replay(case):
    rp = case["replay"]
    wd = workdir("replay-parser")
    if rp.get("hang"):
        again = []
        record_with_watchdog(["-in", write_inputs(wd, [(rp["entry"], rp["buf"])]), "-entries", rp["entry"]], os.path.join(wd, "hang"), 1, again)
        return "hang reproduced" if again else None
    still = confirm([(rp["entry"], tuple(rp["buf"]))], TAGS[rp["property"]], wd)
    return "rejected again by ParserTrace: %s" % list(still.values()) if still else None
