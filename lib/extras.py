"""./check extra : behaviour outside the listed properties (Extras.tla -> replay).  Decides no property; prints
DEVIATION lines for anything the real code does differently from the specification and exits 1 for deviations that are
not listed under "beyond_properties" in known_findings.json (those print NOTE lines)."""
import json
import os
import re

import common
from common import harness_json, tlc_must_pass, tla_string, workdir, log


def main():
    wd = workdir("extra")
    out = os.path.join(wd, "cases.ndjson")
    text = ("CONSTANTS\n  OutFile = %s\n  MaxRecords = 3\nSPECIFICATION Spec\nINVARIANTS ClassesNest FoldIsEquivalence Emit\nCHECK_DEADLOCK FALSE\n" % tla_string(out))
    r = tlc_must_pass("Extras", text, os.path.join(wd, "gen"), workers=4, heap="4g", timeout=1200)
    res = harness_json(["extras", "-in", out])
    log("Extras.tla: %d cases (%s), %d deviations" % (r.distinct, res["cases"], len(res["deviations"])))
    with open(os.path.join(common.VERIF, "known_findings.json")) as fh:
        listed = json.load(fh).get("beyond_properties", [])
    seen = {}
    bad = 0
    for d in res["deviations"]:
        for e in listed:
            if re.search(e["detail_regex"], d["detail"]):
                seen.setdefault(e["id"], []).append(d)
                break
        else:
            bad += 1
            if bad <= 20:
                print("DEVIATION extras %s :: %s" % (d["detail"], d["case"][:200]))
    for k, v in seen.items():
        print("NOTE: beyond-properties observation %s (%d cases, e.g. %s)" % (k, len(v), v[0]["detail"]))
    print("%s extras cases=%d deviations=%d" % ("OK" if bad == 0 else "FAILED", r.distinct, bad))
    return 1 if bad else 0
