"""Shared machinery of the memefish verification checks.

Every verdict is TLC's (trace validation of recorded behaviour, or a TLC-generated behaviour that
the real code failed to follow) and every reported violation is first reproduced against the real
code in a fresh process.  Exit codes: 0 held / known findings only, 1 VIOLATION, 2 infrastructure.
"""
import concurrent.futures
import hashlib
import json
import os
import re
import shutil
import subprocess
import sys
import threading
import time

VERIF = os.path.dirname(os.path.dirname(os.path.abspath(__file__)))
REPO = os.environ.get("VERIF_REPO", "/repo")
SPEC = os.path.join(VERIF, "spec")
HARNESS = os.path.join(VERIF, "harness")
WORK = os.environ.get("VERIF_WORK", os.path.join(VERIF, "work"))
EVID = os.path.join(VERIF, "evidence")
REPLAY = os.path.join(VERIF, "replay")
BIN = os.path.join(WORK, "bin", "mfverif")
TLA_CP = "/opt/veriftools/tla/tla2tools.jar:/opt/veriftools/tla/CommunityModules-deps.jar"
NCPU = os.cpu_count() or 4


class Infra(Exception):
    """Infrastructure problem: never a violation (exit 2)."""


def goenv():
    e = dict(os.environ)
    e.update(GOFLAGS="-mod=mod", GOPROXY="off", GOSUMDB="off", GOTOOLCHAIN="local")
    e.setdefault("GOCACHE", os.path.join(WORK, "gocache"))
    if os.environ.get("VERIF_COVER"):
        e["GOCOVERDIR"] = os.environ["VERIF_COVER"]
    return e


_T0 = time.time()


def log(*a):
    print("[check %6.1fs]" % (time.time() - _T0), *a, file=sys.stderr, flush=True)


def seed():
    try:
        return int(os.environ.get("VERIF_SEED", "1"))
    except ValueError:
        return 1


def run(cmd, cwd=None, env=None, timeout=None, check=True, capture=True):
    p = subprocess.run(cmd, cwd=cwd, env=env, timeout=timeout, text=True,
                       stdout=subprocess.PIPE if capture else None,
                       stderr=subprocess.STDOUT if capture else None)
    if check and p.returncode != 0:
        raise Infra("command failed (%d): %s\n%s" % (p.returncode, " ".join(map(str, cmd)), (p.stdout or "")[-4000:]))
    return p


_built = False


_build_lock = threading.Lock()
_built_race = False


def build_harness(race=False):
    """(Re)build the harness against /repo's current working tree with hooks enabled (once per process and flavour)."""
    with _build_lock:
        return _build_harness(race)


def _build_harness(race):
    global _built, _built_race
    out = BIN + ("-race" if race else "")
    if os.path.exists(out) and (_built_race if race else _built):
        return out
    if race:
        _built_race = True
    os.makedirs(os.path.dirname(out), exist_ok=True)
    shutil.copyfile(os.path.join(REPO, "go.sum"), os.path.join(HARNESS, "go.sum"))
    # the harness module replaces the memefish module by the tree under test (default /repo)
    gm = os.path.join(HARNESS, "go.mod")
    want = "module mfverif\n\ngo 1.23.0\n\nrequire (\n\tgithub.com/cloudspannerecosystem/memefish v0.0.0\n)\n\nreplace github.com/cloudspannerecosystem/memefish => %s\n" % REPO
    if REPO != "/repo" or open(gm).read() != want:
        if REPO != "/repo":
            # never rewrite the committed go.mod for an alternative tree: build from a private copy of the harness
            alt = os.path.join(WORK, "harness-alt")
            shutil.rmtree(alt, ignore_errors=True)
            shutil.copytree(HARNESS, alt)
            with open(os.path.join(alt, "go.mod"), "w") as fh:
                fh.write(want)
            shutil.copyfile(os.path.join(REPO, "go.sum"), os.path.join(alt, "go.sum"))
            return _go_build(alt, out, race)
        with open(gm, "w") as fh:
            fh.write(want)
    return _go_build(HARNESS, out, race)


def _go_build(src, out, race):
    global _built
    cmd = ["go", "build", "-tags", "verif", "-o", out]
    if race:
        cmd.insert(2, "-race")
    if os.environ.get("VERIF_COVER") and not race:   # (the race build counts atomically: its counters cannot be merged with the others)
        # statement coverage of the code under test by a check (lib/coverage.sh); counters go to $GOCOVERDIR
        m = "github.com/cloudspannerecosystem/memefish"
        cmd[2:2] = ["-cover", "-coverpkg=mfverif,%s,%s/ast,%s/token,%s/char" % (m, m, m, m)]  # the main package must be instrumented for the counters to be written
    t = time.time()
    p = run(cmd + ["."], cwd=src, env=goenv(), check=False, timeout=900)
    if p.returncode != 0:
        # a tree that no longer compiles is not a property violation
        raise Infra("harness does not build against %s:\n%s" % (REPO, p.stdout[-4000:]))
    log("harness built in %.1fs%s" % (time.time() - t, " (race)" if race else ""))
    if not race:
        _built = True
    return out


def harness(args, timeout=3600, race=False, env=None, check=True):
    b = build_harness(race)
    e = goenv()
    if env:
        e.update(env)
    p = run([b] + [str(a) for a in args], env=e, timeout=timeout, check=check)
    return p


def harness_json(args, **kw):
    p = harness(args, **kw)
    last = [l for l in p.stdout.strip().splitlines() if l.startswith("{")]
    if not last:
        raise Infra("harness produced no summary: %s\n%s" % (args, p.stdout[-2000:]))
    return json.loads(last[-1])


_workdirs = []


def workdir(name):
    d = os.path.join(WORK, name)
    shutil.rmtree(d, ignore_errors=True)
    os.makedirs(d)
    _workdirs.append(d)
    return d


def cleanup_workdirs():
    """Disk space is limited: the scratch data of a check that held (tapes, traces, TLC output: up to tens of GB in the
    thorough tier) is removed when the check ends; it is kept after a violation and with VERIF_KEEP=1."""
    if os.environ.get("VERIF_KEEP"):
        return
    for d in _workdirs:
        if os.path.basename(d).startswith("replay"):
            continue
        shutil.rmtree(d, ignore_errors=True)


def tla_string(s):
    return '"' + s.replace("\\", "\\\\").replace('"', '\\"') + '"'


class TLCResult:
    def __init__(self):
        self.ok = False
        self.generated = 0
        self.distinct = 0
        self.depth = 0
        self.output = ""
        self.violated = None  # name of violated invariant / property, if any
        self.wall = 0.0
        self.coverage = {}


def tlc(module, cfg_text, wd, workers=1, timeout=3600, heap="8g", simulate=None, extra=None,
        depth_first=False, coverage=False, name=None, many=False):
    """Run TLC on spec/<module>.tla with the given configuration text inside a scratch copy."""
    name = name or module
    os.makedirs(wd, exist_ok=True)
    for f in os.listdir(SPEC):
        if f.endswith(".tla"):
            shutil.copyfile(os.path.join(SPEC, f), os.path.join(wd, f))
    cfg = os.path.join(wd, name + ".cfg")
    with open(cfg, "w") as fh:
        fh.write(cfg_text)
    meta = os.path.join(wd, "meta-" + name)
    shutil.rmtree(meta, ignore_errors=True)
    if many:
        # many single-worker TLC processes side by side: the serial collector and two JIT threads
        # scale 3x better than the parallel collector (measured: 16 x 183k states, 63 s -> 20 s)
        jopts = ["-Xss512m", "-Xmx" + heap, "-XX:+UseSerialGC", "-XX:CICompilerCount=2"]
    else:
        jopts = ["-Xss512m", "-Xmx" + heap, "-XX:+UseParallelGC", "-XX:ParallelGCThreads=4"]
    if depth_first:
        jopts.append("-Dtlc2.tool.queue.IStateQueue=StateDeque")
    cmd = ["java"] + jopts + ["-cp", TLA_CP, "tlc2.TLC", "-workers", str(workers), "-metadir", meta,
                              "-config", cfg, "-nowarning"]
    if simulate:
        cmd += ["-simulate", simulate]
    if coverage:
        cmd += ["-coverage", "1"]
    if extra:
        cmd += extra
    cmd.append(module)
    t = time.time()
    res = TLCResult()
    env = dict(os.environ)
    env.pop("JAVA_TOOL_OPTIONS", None)
    try:
        p = subprocess.run(cmd, cwd=wd, env=env, timeout=timeout, text=True, stdout=subprocess.PIPE,
                           stderr=subprocess.STDOUT)
    except subprocess.TimeoutExpired:
        raise Infra("TLC timed out after %ds on %s" % (timeout, name))
    res.wall = time.time() - t
    res.output = p.stdout
    with open(os.path.join(wd, name + ".out"), "w") as fh:
        fh.write(p.stdout)
    m = re.findall(r"(\d+) states generated, (\d+) distinct states found", p.stdout)
    if m:
        res.generated, res.distinct = int(m[-1][0]), int(m[-1][1])
    m = re.search(r"depth of the complete state graph search is (\d+)", p.stdout)
    if m:
        res.depth = int(m.group(1))
    m = re.search(r"Invariant (\S+) is violated|Temporal properties were violated|Action property (\S+) is violated", p.stdout)
    if m:
        res.violated = m.group(1) or m.group(2) or "temporal"
    if coverage:
        for mm in re.finditer(r"<(\w+) line (\d+), col \d+ to line \d+, col \d+ of module (\w+)>: (\d+):(\d+)", p.stdout):
            res.coverage["%s.%s@%s" % (mm.group(3), mm.group(1), mm.group(2))] = [int(mm.group(4)), int(mm.group(5))]
    res.ok = (p.returncode == 0 and "Model checking completed. No error has been found." in p.stdout) or \
             (simulate is not None and p.returncode == 0)
    shutil.rmtree(meta, ignore_errors=True)
    return res


def tlc_must_pass(*a, **kw):
    r = tlc(*a, **kw)
    if not r.ok:
        raise Infra("TLC run failed (%s):\n%s" % (kw.get("name") or a[0], r.output[-3000:]))
    return r


def parallel(jobs, maxpar=8):
    """jobs: list of callables; returns results in order."""
    if not jobs:
        return []
    with concurrent.futures.ThreadPoolExecutor(max_workers=min(maxpar, len(jobs))) as ex:
        futs = [ex.submit(j) for j in jobs]
        return [f.result() for f in futs]


def validate_chunks(module, const_lines, prefix, nchunks, wd, timeout=3600, heap="4g", maxpar=8,
                    postcondition="Accepted", spec="Spec", step_mode=False):
    """Validate <prefix>.<k>.ndjson (k < nchunks) against trace specification `module`.
    Returns (records, rejects) where rejects is a list of (chunk, line, tag)."""
    def job(k):
        def f():
            tf = "%s.%d.ndjson" % (prefix, k)
            rf = os.path.join(wd, "rejects.%d.csv" % k)
            if os.path.exists(rf):
                os.remove(rf)
            n = sum(1 for _ in open(tf))
            if n == 0:
                return (k, 0, [], None)
            cfg = "CONSTANTS\n  TraceFile = %s\n  RejectFile = %s\n%s\nSPECIFICATION %s\nPOSTCONDITION %s\n%sCHECK_DEADLOCK FALSE\n" % (
                tla_string(tf), tla_string(rf), "\n".join("  " + c for c in const_lines), spec, postcondition,
                "INVARIANT DoneMark\n" if step_mode else "")
            r = tlc(module, cfg, os.path.join(wd, "tlc%d" % k), workers=1, timeout=timeout, heap=heap,
                    name="%s_%d" % (module, k), many=nchunks > 2)
            if not r.ok:
                raise Infra("trace validation did not complete on chunk %d of %s:\n%s" % (k, module, r.output[-3000:]))
            if not step_mode and r.distinct != n + 1:
                raise Infra("trace validation consumed %d of %d records (chunk %d)" % (r.distinct - 1, n, k))
            rej = []
            done = False
            if os.path.exists(rf):
                for line in open(rf):
                    parts = [x.strip().strip('"') for x in line.strip().split(",")]
                    if len(parts) > 1 and parts[1] == "DONE":
                        done = True
                    elif parts and parts[0]:
                        rej.append((k, int(parts[0]), parts[1] if len(parts) > 1 else ""))
            if step_mode and not done:
                raise Infra("step-mode trace validation did not reach the end of chunk %d of %s" % (k, module))
            return (k, n, rej, r)
        return f
    results = parallel([job(k) for k in range(nchunks)], maxpar)
    total = sum(r[1] for r in results)
    log("validated %s: %d records in %d chunks" % (os.path.basename(prefix), total, nchunks))
    rejects = [x for r in results for x in r[2]]
    states = sum((r[3].distinct if r[3] else 0) for r in results)
    trans = sum((r[3].generated if r[3] else 0) for r in results)
    return total, rejects, states, trans


def read_record(prefix, chunk, line):
    with open("%s.%d.ndjson" % (prefix, chunk)) as fh:
        for i, l in enumerate(fh, 1):
            if i == line:
                return json.loads(l)
    raise Infra("record %d of chunk %d not found" % (line, chunk))


# ---------------------------------------------------------------------------------------------
# known findings
# ---------------------------------------------------------------------------------------------

def load_known():
    p = os.path.join(VERIF, "known_findings.json")
    if not os.path.exists(p):
        return []
    with open(p) as fh:
        return [e for e in json.load(fh).get("findings", []) if e.get("status") == "open"]


TRIVIA = r"(?:\s|/\*[\s\S]*?\*/|--[^\n]*(?:\n|$)|#[^\n]*(?:\n|$)|//[^\n]*(?:\n|$))"


def expand_trivia(rx):
    """{T*} / {T+}: white space and comments between two tokens (signatures must match every rendering of an input)"""
    return rx.replace("{T*}", TRIVIA + "*").replace("{T+}", TRIVIA + "+")


def match_known(known, prop, case):
    """case: dict with at least 'input' (latin-1 text) and 'kind' (discrepancy kind)."""
    for e in known:
        if e.get("property") != prop:
            continue
        sig = e.get("signature", {})
        if "kind" in sig and sig["kind"] != case.get("kind"):
            continue
        if "entry" in sig and sig["entry"] != case.get("entry"):
            continue
        if "input_regex" in sig and not re.search(expand_trivia(sig["input_regex"]), case.get("input", ""), re.S):
            continue
        if "detail_regex" in sig and not re.search(sig["detail_regex"], case.get("detail", ""), re.S):
            continue
        return e
    return None


# ---------------------------------------------------------------------------------------------
# evidence / verdict
# ---------------------------------------------------------------------------------------------

class Check:
    def __init__(self, prop, tier, level):
        self.prop, self.tier, self.level = prop, tier, level
        self.t0 = time.time()
        self.cov = {"states": 0, "transitions": 0, "traces_validated_against_impl": 0, "samples": [],
                    "evaluations": 0, "distinct_nontrivial": 0, "rule": "", "exhaustive": False}
        self.assumptions = []
        self.violations = []   # confirmed, not known
        self.known_hits = {}
        self.notes = {}
        self.known = load_known()

    def add_states(self, r):
        self.cov["states"] += r.distinct
        self.cov["transitions"] += r.generated

    def sample(self, s, cap=12):
        if len(self.cov["samples"]) < cap:
            self.cov["samples"].append(s)

    def violation(self, case):
        """case: dict(input=..., kind=..., detail=..., replay={...}); already confirmed on real code."""
        k = match_known(self.known, self.prop, case)
        if k is not None:
            self.known_hits.setdefault(k.get("id", k.get("explanation", "?")), []).append(case)
            return
        self.violations.append(case)

    def finish(self):
        wall = time.time() - self.t0
        os.makedirs(EVID, exist_ok=True)
        replay_paths = []
        for case in self.violations[:25]:
            d = os.path.join(REPLAY, self.prop)
            os.makedirs(d, exist_ok=True)
            body = json.dumps(case.get("replay", case), sort_keys=True)
            path = os.path.join(d, hashlib.sha1(body.encode()).hexdigest()[:16] + ".json")
            with open(path, "w") as fh:
                json.dump({"property": self.prop, "kind": case.get("kind"), "detail": case.get("detail"),
                           "input": case.get("input"), "replay": case.get("replay")}, fh, indent=1)
            replay_paths.append(path)
        ev = {"property_id": self.prop, "tier": self.tier, "seed": seed(), "level": self.level,
              "coverage": self.cov, "assumptions": self.assumptions, "wall_s": round(wall, 2),
              "violations": len(self.violations)}
        if self.notes:
            ev["coverage"]["notes"] = self.notes
        if self.known_hits:
            ev["coverage"]["known_findings_hit"] = {k: len(v) for k, v in self.known_hits.items()}
        with open(os.path.join(EVID, self.prop + ".json"), "w") as fh:
            json.dump(ev, fh, indent=1)
        for k, cases in self.known_hits.items():
            print("KNOWN-FINDING: property=%s %s (%d cases, e.g. %r)" % (self.prop, k, len(cases), cases[0].get("input", "")[:80]))
        if self.violations:
            for case, path in zip(self.violations, replay_paths):
                print("VIOLATION property=%s replay=%s" % (self.prop, path))
                print("  kind=%s input=%r detail=%s" % (case.get("kind"), (case.get("input") or "")[:200], (case.get("detail") or "")[:300]))
            if len(self.violations) > len(replay_paths):
                print("  (+%d more violations not written out)" % (len(self.violations) - len(replay_paths)))
            return 1
        print("OK property=%s tier=%s wall=%.1fs states=%d traces=%d evaluations=%d" % (
            self.prop, self.tier, wall, self.cov["states"], self.cov["traces_validated_against_impl"], self.cov["evaluations"]))
        cleanup_workdirs()
        return 0


def latin(buf):
    return bytes(buf).decode("latin-1")
