#!/usr/bin/env python3
"""Apply a seeded change to /repo, run the given checks (quick), and restore /repo.
usage: seedtest.py <patch.diff> <ID> [<ID> ...]     (prints per check: exit code and #VIOLATION lines)"""
import subprocess
import sys

import os
REPO = os.environ.get("VERIF_REPO", "/repo")
patch, ids = sys.argv[1], sys.argv[2:]
tier = "quick"
if ids and ids[-1] in ("quick", "thorough"):
    tier = ids.pop()
st = subprocess.run(["git", "-C", REPO, "status", "--porcelain"], capture_output=True, text=True).stdout.strip()
if st:
    sys.exit("refusing: %s is not clean:\n%s" % (REPO, st))
r = subprocess.run(["git", "-C", REPO, "apply", "-3", patch], capture_output=True, text=True)
if r.returncode != 0:
    subprocess.run(["git", "-C", REPO, "reset", "-q", "--hard", "HEAD"])
    sys.exit("patch does not apply: " + r.stderr[-500:])
try:
    for i in ids:
        here = os.path.dirname(os.path.dirname(os.path.abspath(__file__)))
        p = subprocess.run([os.path.join(here, "check"), i, tier], capture_output=True, text=True, cwd=here)
        v = [l for l in p.stdout.splitlines() if l.startswith("VIOLATION")]
        print("%s %s: exit=%d violations=%d %s" % (patch, i, p.returncode, len(v), (p.stdout.splitlines()[1:2] or [""])[0][:160] if v else p.stdout.strip().splitlines()[-1:]))
        if p.returncode == 2:
            print(p.stderr[-1500:])
finally:
    subprocess.run(["git", "-C", REPO, "reset", "-q", "--hard", "HEAD"])
    subprocess.run(["git", "-C", REPO, "clean", "-fdq"])
