#!/usr/bin/env python3
"""Apply a seeded change to /repo, run the given checks (quick), and restore /repo.
usage: seedtest.py <patch.diff> <ID> [<ID> ...]     (prints per check: exit code and #VIOLATION lines)"""
import subprocess
import sys

patch, ids = sys.argv[1], sys.argv[2:]
tier = "quick"
if ids and ids[-1] in ("quick", "thorough"):
    tier = ids.pop()
st = subprocess.run(["git", "-C", "/repo", "status", "--porcelain"], capture_output=True, text=True).stdout.strip()
if st:
    sys.exit("refusing: /repo is not clean:\n" + st)
r = subprocess.run(["git", "-C", "/repo", "apply", "-3", patch], capture_output=True, text=True)
if r.returncode != 0:
    subprocess.run(["git", "-C", "/repo", "reset", "-q", "--hard", "HEAD"])
    sys.exit("patch does not apply: " + r.stderr[-500:])
try:
    for i in ids:
        p = subprocess.run(["/verif/check", i, tier], capture_output=True, text=True, cwd="/verif")
        v = [l for l in p.stdout.splitlines() if l.startswith("VIOLATION")]
        print("%s %s: exit=%d violations=%d %s" % (patch, i, p.returncode, len(v), (p.stdout.splitlines()[1:2] or [""])[0][:160] if v else p.stdout.strip().splitlines()[-1:]))
        if p.returncode == 2:
            print(p.stderr[-1500:])
finally:
    subprocess.run(["git", "-C", "/repo", "reset", "-q", "--hard", "HEAD"])
    subprocess.run(["git", "-C", "/repo", "clean", "-fdq"])
