"""C11: statement lists compose (ParseStatements == SplitRawStatements + ParseStatement per piece).

StmtList.tla generates every ';'-joined list (up to MaxLen items) over a pool of statements with
separator-trivia, leading and trailing ';' variants; the harness records, for every list, what the
list entry point returned and what split + single-statement parse return per piece; TLC evaluates
the composition law on every record (ComposeTrace.tla).
"""
import json
import os

import common
from common import Check, harness_json, validate_chunks, read_record, workdir, tlc_must_pass, tla_string, latin, log

TIERS = {"quick": {"ParseStatements": 2, "ParseDDLs": 2, "ParseDMLs": 2}, "thorough": {"ParseStatements": 2, "ParseDDLs": 3, "ParseDMLs": 3}}


def run(prop, tier):
    chk = Check(prop, tier, "model_checking")
    wd = workdir("%s-%s" % (prop, tier))
    rejected = {}
    total = 0

    def gen(entry, maxlen):
        out = os.path.join(wd, "lists-%s.ndjson" % entry)
        text = "CONSTANTS\n  MaxLen = %d\n  OutFile = %s\n  Entry = %s\nSPECIFICATION Spec\nINVARIANT Emit\nCHECK_DEADLOCK FALSE\n" % (maxlen, tla_string(out), tla_string(entry))
        r = tlc_must_pass("StmtList", text, os.path.join(wd, "gen-" + entry), workers=5, heap="6g", timeout=6000, name="StmtList_" + entry)
        return entry, out, r
    for (entry, out, r) in common.parallel([lambda e=e, m=m: gen(e, m) for e, m in TIERS[tier].items()], 3):
        chk.add_states(r)
        pre = os.path.join(wd, "rec-" + entry)
        n = harness_json(["compose", "-in", out, "-out", pre, "-chunks", 8])["records"]
        cnt, rejects, states, trans = validate_chunks("ComposeTrace", [], pre, 8, os.path.join(wd, "v-" + entry))
        log("%s: %d lists, %d rejects" % (entry, cnt, len(rejects)))
        total += cnt
        chk.cov["states"] += states
        chk.cov["transitions"] += trans
        chk.notes.setdefault("lists", {})[entry] = cnt
        for (k, line, tag) in rejects[:3000]:
            rec = read_record(pre, k, line) if len(rejects) < 200 else None
            if rec is None:
                break
            rejected[(entry, tuple(rec["buf"]))] = rec
        if len(rejects) >= 200:
            want = {}
            for (k, line, tag) in rejects:
                want.setdefault(k, set()).add(line)
            for k, lines in want.items():
                with open("%s.%d.ndjson" % (pre, k)) as fh:
                    for i, l in enumerate(fh, 1):
                        if i in lines:
                            rec = json.loads(l)
                            rejected[(entry, tuple(rec["buf"]))] = rec
        rec = read_record(pre, 0, 5)
        chk.sample({"entry": entry, "input": latin(rec["buf"]), "list_nil": rec["listnil"], "pieces": [(p["p"], p["e"], p["empty"], p["nil"]) for p in rec["pieces"]]})
    # ---- every statement of the reference grammar G in list context -------------------------------------------
    # (the end of a statement must be recognised the same way before ';' as at the end of the input, and a statement
    #  must start the same way after ';' as at offset 0)
    import fam_grammar
    fam_grammar.GEN_HEAP = "3g" if tier == "quick" else "10g"
    gl = os.path.join(wd, "glists.ndjson")
    nst = 0
    with open(gl, "w") as out:
        jobs = []
        for (start, free, bq, bt, bh) in fam_grammar.STARTS:
            if fam_grammar.has_start(start) and not start.startswith("FE_") and start not in ("E12", "Type"):
                jobs.append(lambda start=start, free=free, b=(bq if tier == "quick" else bh): fam_grammar.generate(chk, start, b, start, free, wd))
        for (tapes, n) in common.parallel(jobs, 12 if tier == "quick" else 5):
            if n == 0:
                continue
            corpus = tapes + ".corpus"
            harness_json(["gram", "-in", tapes, "-out", os.path.join(wd, "dump.findings"), "-dump", corpus])
            for l in open(corpus):
                c = json.loads(l)
                t = c["text"]
                nst += 1
                forms = [("ParseStatements", t + ";SELECT 1"), ("ParseStatements", "SELECT 1;" + t + " ;"), ("ParseStatements", t + "\n;\n" + t)]
                if c["dir"] == "ddl":
                    forms += [("ParseDDLs", t + ";DROP TABLE t"), ("ParseDDLs", "DROP TABLE t; " + t + ";")]
                if c["dir"] == "dml":
                    forms += [("ParseDMLs", t + ";DELETE FROM t WHERE TRUE"), ("ParseDMLs", "DELETE FROM t WHERE TRUE; " + t + ";")]
                for (e, text) in forms:
                    out.write(json.dumps({"entry": e, "text": text}) + "\n")
    pre = os.path.join(wd, "rec-glists")
    n = harness_json(["compose", "-in", gl, "-out", pre, "-chunks", 8])["records"]
    cnt, rejects, states, trans = validate_chunks("ComposeTrace", [], pre, 8, os.path.join(wd, "v-glists"))
    log("grammar statements in list context: %d statements, %d lists, %d rejects" % (nst, cnt, len(rejects)))
    total += cnt
    chk.cov["states"] += states
    chk.cov["transitions"] += trans
    chk.notes["grammar_statements_in_list_context"] = {"statements": nst, "lists": cnt}
    for (k, line, tag) in rejects[:3000]:
        rec = read_record(pre, k, line)
        rejected[(rec["entry"], tuple(rec["buf"]))] = rec
    chk.cov["traces_validated_against_impl"] = total
    chk.cov["evaluations"] = total
    chk.cov["distinct_nontrivial"] = max(2, total)
    chk.cov["exhaustive"] = True
    chk.cov["rule"] = ("every list of up to MaxLen statements over a 36-statement pool (queries incl. trailing-comma forms, DML, DDL, CALL, 6 broken statements, 4 empty/comment-only ones) "
                       "x 8 separator-trivia variants per gap, plus every leading/trailing ';' decoration, for the three list entry points; one record per list, validated by TLC"
                       " || every statement sentence of the reference grammar G (all statement start symbols, the quick budgets of the grammar checks) in list context: "
                       "before ';' + statement, after statement + ';', and twice with a newline-separated ';' (ParseStatements; ParseDDLs / ParseDMLs for DDL / DML sentences)")
    still = confirm(list(rejected.keys())[:500], wd)
    for key, rec in rejected.items():
        if key in still:
            chk.violation({"input": latin(rec["buf"]), "entry": rec["entry"], "kind": "C11-compose",
                           "detail": "list nil=%s n=%d pieces=%s" % (rec["listnil"], rec["nlist"], [(p["p"], p["e"], "empty" if p["empty"] else ("nil" if p["nil"] else "err")) for p in rec["pieces"]]),
                           "replay": {"family": "compose", "property": prop, "entry": rec["entry"], "buf": rec["buf"]}})
    chk.assumptions = ["a piece is 'empty' when it contains no token (comments only count as empty)", "digests cover every exported field; positions are compared after shifting by the piece offset"]
    return chk.finish()


def confirm(keys, wd):
    if not keys:
        return set()
    src = os.path.join(wd, "confirm.ndjson")
    with open(src, "w") as fh:
        for (entry, buf) in keys:
            fh.write(json.dumps({"entry": entry, "text": latin(buf)}) + "\n")
    pre = os.path.join(wd, "confirm")
    harness_json(["compose", "-in", src, "-out", pre])
    cnt, rejects, _, _ = validate_chunks("ComposeTrace", [], pre, 1, os.path.join(wd, "confirm-tlc"))
    out = set()
    for (_, line, _) in rejects:
        rec = read_record(pre, 0, line)
        out.add((rec["entry"], tuple(rec["buf"])))
    return out


def replay_case(case):
    rp = case["replay"]
    wd = workdir("replay-compose")
    still = confirm([(rp["entry"], tuple(rp["buf"]))], wd)
    return "composition law rejected again" if still else None
