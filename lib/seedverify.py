#!/usr/bin/env python3
"""Confirm a sub-agent's seeded change in a scratch worktree of /repo's HEAD and, if it holds up,
store it under /verif/seeded/<name>/ (patch.diff rebased to HEAD, the demo, meta.json).

usage: seedverify.py <srcdir> <k> <property> [--needs "text"]
Confirms: (1) demo passes without the change, (2) the change applies, builds and vets,
(3) the unedited suite passes with the change, (4) the demo fails with the change."""
import json
import os
import re
import shutil
import subprocess
import sys

src, k, prop = sys.argv[1], sys.argv[2], sys.argv[3]
needs = sys.argv[5] if len(sys.argv) > 5 and sys.argv[4] == "--needs" else ""
name = os.environ.get("SEED_NAME") or "%s-%s" % (prop, k)
wt = "/tmp/sv-" + name
env = dict(os.environ, GOFLAGS="-mod=mod", GOPROXY="off", GOSUMDB="off", GOTOOLCHAIN="local")


def sh(cmd, cwd=wt, ok=None):
    p = subprocess.run(cmd, cwd=cwd, env=env, shell=True, text=True, capture_output=True)
    return p.returncode, (p.stdout + p.stderr)


subprocess.run("git -C /repo worktree remove --force %s 2>/dev/null; rm -rf %s" % (wt, wt), shell=True)
rc, out = sh("git -C /repo worktree add -q --detach %s HEAD" % wt, cwd="/")
if rc:
    sys.exit(out)
log = []
try:
    patch = os.path.join(src, "patch%s.diff" % k)
    demo = os.path.join(src, "demo%s_test.go" % k)
    pkg = re.search(r"^package (\w+)", open(demo).read(), re.M).group(1)
    destdir = {"memefish_test": ".", "memefish": ".", "token_test": "token", "token": "token", "ast_test": "ast", "ast": "ast", "char": "char", "char_test": "char"}.get(pkg, ".")
    dest = os.path.join(wt, destdir, "zz_seed_demo_test.go")
    shutil.copyfile(demo, dest)
    tests = "|".join(re.findall(r"^func (Test\w+)\(", open(demo).read(), re.M))
    rc, out = sh("go test " + os.environ.get("SEED_FLAGS", "") + " -count=1 -run '^(%s)$' ./%s" % (tests, destdir))
    log.append("demo without change: rc=%d" % rc)
    if rc != 0:
        print("FAIL %s: demo does not pass on HEAD without the change\n%s" % (name, out[-1500:]))
        sys.exit(1)
    os.remove(dest)
    rc, out = sh("git apply -3 %s" % patch)
    if rc != 0:
        print("FAIL %s: patch does not apply to HEAD\n%s" % (name, out[-800:]))
        sys.exit(1)
    sh("git reset -q")
    rc, out = sh("go build ./... && go vet . ./ast ./token ./char")
    log.append("build+vet with change: rc=%d" % rc)
    if rc != 0:
        print("FAIL %s: build/vet\n%s" % (name, out[-1500:]))
        sys.exit(1)
    rc, out = sh("go test -count=1 ./...")
    log.append("suite with change: rc=%d" % rc)
    if rc != 0:
        print("FAIL %s: suite fails with the change\n%s" % (name, out[-1500:]))
        sys.exit(1)
    rc2, diff = sh("git diff")
    shutil.copyfile(demo, dest)
    rc, out = sh("timeout 300 go test " + os.environ.get("SEED_FLAGS", "") + " -count=1 -run '^(%s)$' ./%s" % (tests, destdir))
    log.append("demo with change: rc=%d" % rc)
    if rc == 0:
        print("FAIL %s: demo passes with the change" % name)
        sys.exit(1)
    d = "/verif/seeded/" + name
    os.makedirs(d, exist_ok=True)
    open(os.path.join(d, "patch.diff"), "w").write(diff)
    shutil.copyfile(demo, os.path.join(d, "demo_test.go.txt"))
    notes = ""
    np = os.path.join(src, "NOTES.md")
    if os.path.exists(np):
        notes = open(np).read()
    meta = {"property": prop, "name": name, "demo_location": destdir, "demo_tests": tests.split("|"),
            "needs_to_manifest": needs, "confirmed": log,
            "ran": ["git worktree add (HEAD of /repo)", "go test -run demo (passes without change)", "git apply -3 patch", "go build ./... && go vet", "go test -count=1 ./... (passes with change)", "go test -run demo (fails with change)"],
            "repo_head": subprocess.run("git -C /repo rev-parse --short HEAD", shell=True, text=True, capture_output=True).stdout.strip()}
    json.dump(meta, open(os.path.join(d, "meta.json"), "w"), indent=1)
    open(os.path.join(d, "NOTES.md"), "w").write(notes)
    print("OK %s: %s" % (name, "; ".join(log)))
finally:
    subprocess.run("git -C /repo worktree remove --force %s; rm -rf %s" % (wt, wt), shell=True)
