#!/bin/bash
# The whole seeded-change matrix, K shards side by side (one scratch clone of the tree under test and one work
# directory per shard; shards own disjoint property ids).  Meant for `vp run --with-repo -- lib/seedpar.sh`:
# it never touches /repo.  Writes seeded/RESULTS.md next to this script's checkout.
cd "$(dirname "$0")/.."
src=${VP_RUN_REPO:-/repo}; K=${K:-4}
ids=(C01 C02 C03 C04 C05 C06 C07 C08 C09 C10 C11 C12 C13 C14 C15 C16 C17 C18 C19 C20)
tmp=$(mktemp -d /tmp/seedpar.XXXX)
for k in $(seq 0 $((K-1))); do
  (
    git clone -q "$src" $tmp/repo-$k
    for j in "${!ids[@]}"; do
      [ $((j % K)) -eq $k ] || continue
      id=${ids[$j]}
      for d in $(ls -d seeded/$id-* | sort -V); do
        n=$(basename $d); extra=""; [ -f $d/SUPERSEDED ] && continue
        case $n in C09-6) extra="C03";; C09-9) extra="C18";; C04-2) extra="C01";; esac
        for c in $id $extra; do
          r=$(VERIF_REPO=$tmp/repo-$k VERIF_WORK=$tmp/work-$k python3 lib/seedtest.py $PWD/$d/patch.diff $c 2>&1 | head -1)
          ex=$(echo "$r" | sed -n 's/.*exit=\([0-9]*\).*/\1/p'); v=$(echo "$r" | sed -n 's/.*violations=\([0-9]*\).*/\1/p')
          echo "| $n | $c | ${ex:-?} | ${v:-$r} |" >> $tmp/rows-$k
          echo "$n $c exit=${ex:-?} violations=${v:-?}"
        done
      done
    done
  ) &
done
wait
out=seeded/RESULTS.md
echo "# Seeded changes vs the quick check of their property (repo HEAD $(git -C $src rev-parse --short HEAD), verif $(git rev-parse --short HEAD 2>/dev/null), $(date -u +%FT%TZ))" > $out
echo >> $out
echo '| seed | check | exit | VIOLATION lines |' >> $out
echo '|---|---|---|---|' >> $out
cat $tmp/rows-* | sort -V >> $out
rm -rf $tmp
grep -c '| 1 |' $out
