#!/bin/bash
# Runs every stored seeded change against the quick check of its own property and writes seeded/RESULTS.md.
# usage: seedall.sh            (uses $VERIF_REPO or /repo; the tree must be clean)
cd "$(dirname "$0")/.."
out=seeded/RESULTS.md
echo "# Seeded changes vs the quick check of their property (repo HEAD $(git -C ${VERIF_REPO:-/repo} rev-parse --short HEAD), $(date -u +%FT%TZ))" > $out
echo >> $out
echo '| seed | check | exit | VIOLATION lines |' >> $out
echo '|---|---|---|---|' >> $out
for d in $(ls -d seeded/C*-* | sort -V); do
  n=$(basename $d); id=${n%%-*}; [ -f $d/SUPERSEDED ] && continue
  extra=""
  case $n in C09-6) extra="C03";; C09-9) extra="C18";; C04-2) extra="C01";; esac
  for c in $id $extra; do
    r=$(python3 lib/seedtest.py $d/patch.diff $c 2>&1 | head -1)
    ex=$(echo "$r" | sed -n 's/.*exit=\([0-9]*\).*/\1/p'); v=$(echo "$r" | sed -n 's/.*violations=\([0-9]*\).*/\1/p')
    echo "| $n | $c | ${ex:-?} | ${v:-$r} |" >> $out
    echo "$n $c exit=${ex:-?} violations=${v:-?}"
  done
done
