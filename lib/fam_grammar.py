"""C01 C02 C05 C06 C07 C08 C16 (and C17 C19 records): the reference grammar G as a generator.

Grammar.tla (engine) + GExpr/GQuery/GDML/GDDL (grammar data written from the documentation) is
model-checked by TLC: every derivation within the budget is a behaviour, written out as a tape.
The harness replays every tape into the real parser/unparser and compares with what the tape says
(tokens, tree skeleton, node spans, canonical token sequence), and relates observations of the
real code to each other where the property says so (round trip, trivia/case invariance, entry
point agreement).  C05's soundness clauses are evaluated by TLC on observation records
(ObserveTrace.tla, reference lexer token boundaries).
"""
import json
import os

import common
from common import Check, Infra, harness_json, validate_chunks, workdir, tlc_must_pass, tla_string, log

# (start symbol, free start choice, budget quick, budget thorough)
# (start symbol, free start choice, budget quick, budget thorough, budget thorough for the heavy checks)
# heavy = several renderings / per-node work per sentence (C05 C06 C16 C17 C19, and C04 as part of the parser family)
STARTS = [("E12", False, 2, 3, 3), ("Type", False, 3, 4, 4), ("QueryStatement", False, 2, 3, 3), ("QS_From", False, 2, 3, 2), ("QS_Suffix", True, 2, 3, 2), ("QS_Table", False, 1, 2, 2),
          ("DML", True, 1, 2, 2), ("Call", False, 1, 2, 2), ("DDL", True, 2, 3, 2),
          ("FE_Arg", False, 1, 2, 2), ("FE_Mod", False, 1, 2, 1), ("FD_Col", False, 1, 2, 1), ("FD_Seq", False, 1, 2, 2), ("FD_Ident", False, 1, 2, 2), ("FD_PG", False, 1, 2, 2),
          ("FD_PGProps", False, 1, 2, 2), ("FD_CS", False, 1, 2, 2), ("FM_Return", False, 1, 2, 2)]
# (start, free, dense depth, budget quick, budget thorough)
# (dense DML / DDL at budget 2 are 6e5 sentences each: the thorough tier keeps budget 1 for them)
DENSE = [("QueryStatement", False, 2, 1, 2), ("DML", True, 2, 1, 1), ("DDL", True, 2, 1, 1), ("E12", False, 2, 1, 2), ("Call", False, 2, 1, 2)]
HEAVY = {"C04", "C05", "C06", "C16", "C17", "C19"}
PROFILES = {"quick": 4, "thorough": 7}
# C07: operator trees
C07 = {"quick": dict(budget=3), "thorough": dict(budget=4)}


def cfg_text(budget, start, free, out, wrap=False, opsonly=False, leafalts=True, dense=0):
    b = lambda x: "TRUE" if x else "FALSE"
    return ("CONSTANTS\n  Budget = %d\n  StartNT = %s\n  StartFree = %s\n  OutFile = %s\n  WrapOps = %s\n  OpsOnly = %s\n  LeafAlts = %s\n  DenseDepth = %d\n"
            "SPECIFICATION Spec\nINVARIANT Emit\nCHECK_DEADLOCK FALSE\n") % (budget, tla_string(start), b(free), tla_string(out), b(wrap), b(opsonly), b(leafalts), dense)


GEN_HEAP = "3g"      # per generator process; the thorough tier (longer tapes, larger queue) raises it and runs fewer side by side


def generate(chk, name, budget, start, free, wd, **kw):
    out = os.path.join(wd, "tapes-%s.ndjson" % name)
    if os.path.exists(out):
        os.remove(out)
    # ONE worker: a tape is longer than the 8 KB that one append writes atomically, and concurrent workers would interleave
    # their lines in OutFile (seen once in a thorough run: two tapes on one line, exit 2). Parallelism comes from running
    # the start symbols side by side.
    r = tlc_must_pass("Grammar", cfg_text(budget, start, free, out, **kw), os.path.join(wd, "gen-" + name), workers=1, heap=GEN_HEAP,
                      timeout=9000, name="Grammar_" + name, many=True)
    chk.add_states(r)
    n = sum(1 for _ in open(out)) if os.path.exists(out) else 0
    chk.notes.setdefault("generated", {})[name] = {"budget": budget, "states": r.distinct, "sentences": n}
    return out, n


WORKERS = 4


def corpora(chk, prop, tier, wd):
    """all generator runs of the check, side by side (each TLC run with 4 workers)"""
    jobs = []
    if prop == "C07":
        b = C07[tier]["budget"]
        jobs.append(lambda: generate(chk, "ops-min", b, "E12", False, wd, opsonly=True, leafalts=False))
        jobs.append(lambda: generate(chk, "ops-full", b, "E12", False, wd, opsonly=True, leafalts=False, wrap=True))
        jobs.append(lambda: generate(chk, "expr", 2 if tier == "quick" else 3, "E12", False, wd))
    else:
        for (start, free, bq, bt, bh) in STARTS:
            if not has_start(start):
                continue
            b = bq if tier == "quick" else (bh if prop in HEAVY else bt)
            jobs.append(lambda start=start, free=free, b=b: generate(chk, start, b, start, free, wd))
    if prop != "C07":
        # dense derivations: (almost) all optional parts of a construct present at once
        for (start, free, depth, bq, bt) in DENSE:
            b = bq if tier == "quick" else bt
            jobs.append(lambda start=start, free=free, b=b, depth=depth: generate(chk, "dense-" + start, b, start, free, wd, dense=depth))
    global GEN_HEAP
    GEN_HEAP = "3g" if tier == "quick" else "10g"
    outs = common.parallel(jobs, 12 if tier == "quick" else 5)
    if tier == "thorough" and prop != "C07":
        # random deep derivations beyond the exhaustive budget (TLC -simulate on the same specification)
        for (start, free) in (("E12", False), ("QueryStatement", False), ("DDL", True), ("DML", True)):
            outs.append(simulate(chk, start, free, wd))
    if tier == "thorough" and prop == "C07":
        outs.append(simulate(chk, "E12", False, wd, opsonly=True, leafalts=False))
    return outs


def simulate(chk, start, free, wd, num=4000, budget=7, **kw):
    name = "sim-" + start
    out = os.path.join(wd, "tapes-%s.ndjson" % name)
    if os.path.exists(out):
        os.remove(out)
    # four single-worker simulations side by side, each with its own output file (see generate)
    def part(i):
        po = "%s.%d" % (out, i)
        if os.path.exists(po):
            os.remove(po)
        common.tlc("Grammar", cfg_text(budget, start, free, po, **kw), os.path.join(wd, "gen-%s-%d" % (name, i)), workers=1, heap="3g", timeout=3000, many=True,
                   simulate="num=%d" % (num // 4), extra=["-depth", "400", "-seed", str(common.seed() + i)], name="Grammar_%s_%d" % (name, i))
        return po
    with open(out, "w") as fh:
        for po in common.parallel([lambda i=i: part(i) for i in range(4)], 4):
            if os.path.exists(po):
                fh.write(open(po).read())
                os.remove(po)
    n = sum(1 for _ in open(out)) if os.path.exists(out) else 0
    if n == 0:
        raise Infra("simulation produced no derivation")
    chk.notes.setdefault("generated", {})[name] = {"budget": budget, "mode": "simulate", "sentences": n}
    return out, n


def has_start(start):
    if start == "DDL" or start.startswith("FD_") or start == "QS_Table":
        return os.path.exists(os.path.join(common.SPEC, "GDDL.tla"))
    return True


def replay(tapes, prop, tier, wd, tag, extra_props=()):
    out = os.path.join(wd, "findings-%s.ndjson" % tag)
    args = ["gram", "-in", tapes, "-out", out, "-props", ",".join((prop,) + tuple(extra_props)), "-profiles", (2 if prop == "C05" and tier == "quick" else PROFILES[tier]) if prop in ("C16", "C06", "C05") else (2 if prop == "C08" else 1)]
    obs = None
    if prop == "C05":
        obs = os.path.join(wd, "obs-%s.0.ndjson" % tag)
        args += ["-obs", obs]
    if prop == "C17":
        obs = os.path.join(wd, "walk-%s.0.ndjson" % tag)
        args += ["-walk", obs, "-seed", common.seed()]
    obs2 = None
    if prop == "C19":
        obs = os.path.join(wd, "posl-%s.0.ndjson" % tag)
        obs2 = os.path.join(wd, "walkb-%s.0.ndjson" % tag)
        args += ["-posl", obs, "-astfile", os.path.join(common.REPO, "ast", "ast.go"), "-walk", obs2]
    stats = harness_json(args, timeout=7200)
    findings = [json.loads(l) for l in open(out)] if os.path.exists(out) else []
    if obs2:
        return stats, findings, (obs, obs2)
    return stats, findings, obs


RAW_PROPS = {"C01", "C04", "C05", "C06", "C17", "C19"}
DIR_OF_START = {"E12": "expr", "Type": "type", "DDL": "ddl", "DML": "dml", "QueryStatement": "query", "Statement": "statement"}


def mutants(chk, prop, tier, wd, tape_files):
    """inputs outside G: structural mutants of G's derivations (TreeFaults.tla) and token-level mutants of the test
    inputs (Faults.tla).  Whatever the real parser accepts must satisfy the real-vs-real clauses."""
    import random
    import fam_parser
    rng = random.Random(common.seed())
    outs = []
    heavy = prop in ("C06", "C19")
    per_start = int(os.environ.get("VERIF_MUTANT_SEEDS", "0")) or ((400 if heavy else 4000) if tier == "quick" else (2000 if heavy or prop == "C17" else 10000))   # thorough sentences are longer: the mutant set grows with the square of the length
    for (tapes, n) in tape_files:
        tag = os.path.basename(tapes)[6:-7]
        # the dense corpora (all optional clauses of a construct present) are the richest seeds for sibling swaps: always taken whole
        if tag not in ("DDL", "QueryStatement", "QS_From", "DML", "E12", "dense-DDL", "dense-DML", "dense-QueryStatement") or n == 0:
            continue
        seeds = os.path.join(wd, "struct-%s.ndjson" % tag)
        ns = harness_json(["gram", "-in", tapes, "-out", os.path.join(wd, "struct.findings"), "-dump", seeds, "-struct", "-maxtoks", 60 if tag.startswith("dense-") else 40])["sentences"]
        if ns == 0:
            continue
        take = min(2500 if heavy else 6000, ns) if tag.startswith("dense-") else min(per_start, ns)
        # TLC reads the whole seed file into memory (a thorough corpus is > 100 MB of JSON: "GC overhead limit exceeded"):
        # only the selected seeds are handed to it
        chosen = set(rng.sample(range(1, ns + 1), take))
        picked = seeds + ".sel"
        with open(seeds) as fh, open(picked, "w") as oh:
            for i, l in enumerate(fh, 1):
                if i in chosen:
                    oh.write(l)
        os.remove(seeds)
        seeds = picked
        sel = "{}"
        out = os.path.join(wd, "treefaults-%s.ndjson" % tag)
        if os.path.exists(out):
            os.remove(out)
        text = "CONSTANTS\n  SeedFile = %s\n  OutFile = %s\n  Sel = %s\nSPECIFICATION Spec\nINVARIANT Emit\nCHECK_DEADLOCK FALSE\n" % (tla_string(seeds), tla_string(out), sel)
        r = tlc_must_pass("TreeFaults", text, os.path.join(wd, "tf-" + tag), workers=WORKERS, heap="6g", timeout=9000, name="TreeFaults_" + tag)
        chk.add_states(r)
        chk.notes.setdefault("tree_fault_mutants", {})[tag] = r.distinct
        outs.append(out)
    # token-level mutants of the upstream test inputs
    pwd = os.path.join(wd, "tokfaults")
    os.makedirs(pwd, exist_ok=True)
    seeds, nseeds = fam_parser.make_seeds(pwd)
    outs.append(fam_parser.gen_faults(chk, tier, pwd, seeds, nseeds))
    return outs


def replay_raw(rawfile, prop, tier, wd, tag):
    out = os.path.join(wd, "findings-%s.ndjson" % tag)
    args = ["gram", "-raw", rawfile, "-out", out, "-props", prop, "-profiles", 1]
    obs = None
    if prop == "C05":
        obs = os.path.join(wd, "obs-%s.0.ndjson" % tag)
        args += ["-obs", obs]
    if prop == "C17":
        obs = os.path.join(wd, "walk-%s.0.ndjson" % tag)
        args += ["-walk", obs, "-seed", common.seed()]
    obs2 = None
    if prop == "C19":
        obs = os.path.join(wd, "posl-%s.0.ndjson" % tag)
        obs2 = os.path.join(wd, "walkb-%s.0.ndjson" % tag)
        args += ["-posl", obs, "-astfile", os.path.join(common.REPO, "ast", "ast.go"), "-walk", obs2]
    stats = harness_json(args, timeout=7200)
    findings = [json.loads(l) for l in open(out)] if os.path.exists(out) else []
    for f in findings:
        f["raw"] = True
    if obs2:
        return stats, findings, (obs, obs2)
    return stats, findings, obs


def tape_lines(tapes, lines):
    want = set(lines)
    got = {}
    with open(tapes) as fh:
        for i, l in enumerate(fh, 1):
            if i in want:
                got[i] = l
    return got


def run(prop, tier):
    chk = Check(prop, tier, "model_checking")
    wd = workdir("%s-%s" % (prop, tier))
    run_into(chk, prop, tier, wd)
    return chk.finish()


def field_universe():
    """Every optional part of the AST as declared in ast/ast.go: 'Type.Field' for pointer / interface / slice / string fields (set at least once),
    'Type.Field[2+]' for slices, 'Type.Field=true|false' for bools and 'Type.Field=<value>' for each constant of an enum type."""
    import re
    src = open(os.path.join(common.REPO, "ast", "ast.go")).read()
    consts = open(os.path.join(common.REPO, "ast", "ast_const.go")).read()
    enums = {}
    for m in re.finditer(r'^\s*\w+\s+(\w+)\s*=\s*"([^"]*)"', consts, re.M):
        enums.setdefault(m.group(1), []).append(m.group(2))
    uni = []
    for m in re.finditer(r"^type (\w+) struct \{\n(.*?)^\}", src, re.M | re.S):
        t = m.group(1)
        if t.startswith("Bad"):
            continue
        for line in m.group(2).split("\n"):
            line = line.split("//")[0].strip()
            if not line:
                continue
            parts = line.split()
            if len(parts) < 2:
                continue
            names = [n.strip(",") for n in parts[:-1]]
            ty = parts[-1]
            for n in names:
                key = t + "." + n
                if ty == "bool":
                    uni += [key + "=true", key + "=false"]
                elif ty in enums:
                    uni += [key + "=" + v for v in enums[ty] if v != ""]
                elif ty.startswith("[]"):
                    uni += [key, key + "[2+]"]
                elif ty == "token.Pos":
                    pass
                else:
                    uni.append(key)
    return uni


def run_into(chk, prop, tier, wd):
    os.makedirs(wd, exist_ok=True)
    total = 0
    all_findings = []     # (tapes file, finding)
    model_dev = 0
    kinds = {}
    fields = {}
    tape_files = corpora(chk, prop, tier, wd)
    for (tapes, n) in tape_files:
        if n == 0:
            continue
        tag = os.path.basename(tapes)[6:-7]
        stats, findings, obs = replay(tapes, prop, tier, wd, tag)
        log("replayed %s: %d sentences, findings %s" % (tag, stats["sentences"], stats["findings"]))
        total += stats["sentences"]
        chk.cov["evaluations"] += stats["evals"].get(prop, 0)
        for k, v in stats["kinds"].items():
            kinds[k] = kinds.get(k, 0) + v
        for k, v in stats.get("fields", {}).items():
            fields[k] = fields.get(k, 0) + v
        for f in findings:
            if f["prop"] == prop:
                all_findings.append((tapes, f))
            elif f["prop"] == "MODEL":
                model_dev += 1
                if len(chk.notes.setdefault("model_deviation_samples", [])) < 5:
                    chk.notes["model_deviation_samples"].append({"text": f["text"], "detail": f["detail"][:200]})
        obs_list = [(obs, OBS_MODULE.get(prop), prop)] if isinstance(obs, str) else ([(obs[0], "PosLangTrace", "C19"), (obs[1], "WalkTrace", "C17")] if obs else [])
        for (ofile, module, as_prop) in obs_list:
            if not ofile or not os.path.exists(ofile):
                continue
            pre = ofile[:-len(".0.ndjson")]
            cnt, rejects, states, trans = split_and_validate(module, pre, wd, tag)
            chk.cov["states"] += states
            chk.cov["transitions"] += trans
            chk.cov["traces_validated_against_impl"] += cnt
            for (k, line, tagp) in rejects:
                rec = common.read_record(pre + ".part", k, line)
                f = obs_finding(as_prop, tagp, rec)
                f["prop"] = prop
                f["module"] = module
                all_findings.append((None, f))
        # a sample
        with open(tapes) as fh:
            first = fh.readline()
        if len(chk.cov["samples"]) < 8:
            try:
                t = json.loads(json.loads(first)) if first.startswith('"') else json.loads(first)
                chk.sample({"start": t["start"], "sentence": " ".join(e["s"] for e in t["tape"] if e.get("i") == "T" and e.get("surf"))})
            except Exception:
                pass
    if prop == "C17":
        r = tlc_must_pass("Walk", "CONSTANTS MaxNodes = %d\nSPECIFICATION Spec\nINVARIANTS AlgorithmIsDefinition OutIsPrefix EachOnce\nCHECK_DEADLOCK FALSE\n" % (4 if tier == "quick" else 5),
                          os.path.join(wd, "walk-design"), workers=8, heap="8g", timeout=3000)
        chk.add_states(r)
        chk.notes["walk_design_states"] = r.distinct
    if prop == "C19":
        for target in generated_sources(chk, wd):
            chk.violation({"input": "ast/" + target, "kind": "C19-generated-stale", "detail": "ast/%s differs from the output of the repository's generator" % target,
                           "replay": {"family": "grammar", "property": "C19", "generated": target}})
    if prop in RAW_PROPS:
        for rawfile in mutants(chk, prop, tier, wd, tape_files):
            tag = "raw-" + os.path.basename(rawfile).split(".")[0]
            stats, findings, obs = replay_raw(rawfile, prop, tier, wd, tag)
            acc = stats["starts"].get("raw-accepted", 0)
            log("mutants %s: %d inputs, %d accepted, findings %s" % (tag, stats["sentences"], acc, stats["findings"]))
            chk.notes.setdefault("mutants_accepted", {})[tag] = [stats["sentences"], acc]
            chk.cov["evaluations"] += stats["evals"].get(prop, 0)
            total += acc
            for f in findings:
                if f["prop"] == prop:
                    all_findings.append((rawfile, f))
            obs_list = [(obs, OBS_MODULE.get(prop), prop)] if isinstance(obs, str) else ([(obs[0], "PosLangTrace", "C19"), (obs[1], "WalkTrace", "C17")] if obs else [])
            for (ofile, module, as_prop) in obs_list:
                if not ofile or not os.path.exists(ofile) or os.path.getsize(ofile) == 0:
                    continue
                pre = ofile[:-len(".0.ndjson")]
                cnt, rejects, states, trans = split_and_validate(module, pre, wd, tag)
                chk.cov["states"] += states
                chk.cov["transitions"] += trans
                chk.cov["traces_validated_against_impl"] += cnt
                for (k, line, tagp) in rejects:
                    rec = common.read_record(pre + ".part", k, line)
                    f = obs_finding(as_prop, tagp, rec)
                    f["prop"] = prop
                    f["module"] = module
                    all_findings.append((None, f))
    if prop not in OBS_MODULE:
        chk.cov["traces_validated_against_impl"] += total
    chk.cov["distinct_nontrivial"] = max(2, chk.cov["distinct_nontrivial"], total)
    chk.cov["exhaustive"] = True
    chk.cov["rule"] = (chk.cov["rule"] + " || " if chk.cov["rule"] else "") + ("every derivation of the reference grammar G within the budget (= number of non-default choices: template, optional clause, list length, flag, enum value, "
                       "surface variant, leaf spelling) from every start symbol, one tape each; each tape is rendered (several trivia/case profiles where the property needs them) and "
                       "replayed into the real entry point; all sentences are distinct derivations")
    chk.notes["node_kinds_reached"] = len([k for k in kinds if not k.startswith("posl:")])
    try:
        import re
        allk = re.findall(r"^type (\w+) struct \{", open(os.path.join(common.REPO, "ast", "ast.go")).read(), re.M)
        chk.notes["node_kinds_total"] = len(allk)
        chk.notes["node_kinds_not_reached"] = sorted(k for k in allk if k not in kinds)
    except Exception:
        pass
    try:
        uni = field_universe()
        chk.notes["ast_field_values_total"] = len(uni)
        chk.notes["ast_field_values_reached"] = len([u for u in uni if u in fields])
        chk.notes["ast_field_values_not_reached"] = sorted(u for u in uni if u not in fields)
    except Exception as e:
        chk.notes["ast_field_values_error"] = str(e)
    chk.notes["model_deviations"] = model_dev
    # confirm in a fresh process: re-run the tapes of the findings only
    confirmed = confirm(prop, tier, all_findings, wd)
    for f in confirmed:
        chk.violation({"input": f["text"], "entry": f.get("start", ""), "kind": "%s-%s" % (prop, f["kind"]), "detail": "[%s/%s] %s" % (f.get("start"), f.get("profile"), f["detail"]),
                       "replay": {"family": "grammar", "property": prop, "tape": f.get("tape"), "obs": f.get("obs"), "rawline": f.get("rawline"), "tier": tier}})
    if prop == "C05":
        # error clause of C05: trees returned WITH errors (fault corpus, hook traces validated by ParserTrace.tla)
        import fam_parser
        fam_parser.run_into(chk, "C05", tier, os.path.join(wd, "errtrees"), faults_only=True)
    chk.assumptions += ["G (GExpr/GQuery/GDML/GDDL.tla) is the reference grammar, written from the documentation and the node documentation of ast/ast.go",
                       "token comparison classes as in DESIGN.md 2.5; '>>' and '<>' are compared as their two halves",
                        "the real lexer used to read SQL() back is itself validated against LexerCore.tla (C14)"]


OBS_MODULE = {"C05": "ObserveTrace", "C17": "WalkTrace", "C19": "PosLangTrace"}


def obs_finding(prop, tagp, rec):
    if prop == "C05":
        return {"prop": "C05", "kind": "unsound-" + tagp, "start": "", "profile": "", "text": common.latin(rec["buf"]),
                "detail": "nodes %s" % rec["nodes"][:6], "line": 0, "obs": rec}
    if prop == "C17":
        kinds = [n["kind"] for n in rec["nodes"]]
        return {"prop": "C17", "kind": "traversal", "start": "", "profile": "", "text": rec.get("src") or "tree of %d nodes: %s" % (len(kinds), " ".join(kinds[:12])),
                "detail": "roots %s; first run log %s" % (rec["roots"], rec["runs"][0]["log"][:8]), "line": 0, "obs": rec}
    return {"prop": "C19", "kind": "position-expression", "start": "", "profile": "", "text": "%s pos=%s end=%s" % (rec["kind"], rec["pos"], rec["end"]),
            "detail": "interpreter %s/%s env %s" % (rec["ipos"], rec["iend"], json.dumps(rec["env"])[:300]), "line": 0, "obs": rec}


def generated_sources(chk, wd):
    """C19, decided next to the model: the checked-in generated files are what the repository's generators produce."""
    import subprocess
    bad = []
    for tool, target in (("gen-ast-pos", "pos.go"), ("gen-ast-walk", "walk_internal.go")):
        out = os.path.join(wd, target)
        p = subprocess.run(["go", "run", "./tools/%s/main.go" % tool, "-astfile", "ast/ast.go", "-constfile", "ast/ast_const.go", "-outfile", out],
                           cwd=common.REPO, env=common.goenv(), text=True, stdout=subprocess.PIPE, stderr=subprocess.STDOUT, timeout=600)
        if p.returncode != 0:
            raise Infra("generator %s failed: %s" % (tool, p.stdout[-800:]))
        same = open(out, "rb").read() == open(os.path.join(common.REPO, "ast", target), "rb").read()
        chk.notes.setdefault("generated_sources", {})[target] = "identical" if same else "DIFFERENT"
        if not same:
            bad.append(target)
    return bad


def split_and_validate(module, pre, wd, tag, chunks=8):
    """split <pre>.0.ndjson into chunk files <pre>.part.<k>.ndjson and validate them in parallel"""
    src = pre + ".0.ndjson"
    # TLC reads a whole chunk into memory (ndJsonDeserialize): keep every chunk below ~40 MB of JSON
    chunks = max(chunks, -(-os.path.getsize(src) // (40 << 20)))
    outs = [open("%s.part.%d.ndjson" % (pre, k), "w") for k in range(chunks)]
    with open(src) as fh:
        for i, l in enumerate(fh):
            outs[i % chunks].write(l)
    for o in outs:
        o.close()
    return validate_chunks(module, [], pre + ".part", chunks, os.path.join(wd, "v-%s-%s" % (module, tag)), maxpar=8)


def confirm(prop, tier, all_findings, wd):
    """fresh process: replay only the tapes that produced findings"""
    if not all_findings:
        return []
    by_file = {}
    obs_recs = []
    for (tapes, f) in all_findings:
        if tapes is None:
            obs_recs.append(f)
        else:
            by_file.setdefault(tapes, []).append(f)
    out = []
    for tapes, fs in list(by_file.items()):
        if fs and fs[0].get("raw"):
            # inputs without tapes: re-run exactly these inputs
            want = sorted(set(f["line"] for f in fs))[:300]
            sub = os.path.join(wd, "confirm-raw.ndjson")
            with open(tapes) as fh, open(sub, "w") as oh:
                keep = set(want)
                texts = {}
                for i, l in enumerate(fh, 1):
                    if i in keep:
                        oh.write(l)
                        texts[len(texts) + 1] = l
            stats, findings, obs = replay_raw(sub, prop, tier, wd, "confirm-raw")
            for f in findings:
                if f["prop"] == prop:
                    f["rawline"] = texts.get(f["line"], "").strip()
                    out.append(f)
            continue
        lines = sorted(set(f["line"] for f in fs))[:300]
        got = tape_lines(tapes, lines)
        sub = os.path.join(wd, "confirm-tapes.ndjson")
        with open(sub, "w") as fh:
            for i in lines:
                fh.write(got[i])
        stats, findings, obs = replay(sub, prop, tier, wd, "confirm")
        for f in findings:
            if f["prop"] == prop:
                f["tape"] = got[lines[f["line"] - 1]].strip()
                out.append(f)
    if obs_recs:
        by_mod = {}
        for f in obs_recs[:300]:
            by_mod.setdefault(f.get("module") or OBS_MODULE[prop], []).append(f)
        for module, fs in by_mod.items():
            pre = os.path.join(wd, "confirm-obs-" + module)
            with open(pre + ".0.ndjson", "w") as fh:
                for f in fs:
                    fh.write(json.dumps(f["obs"]) + "\n")
            cnt, rejects, _, _ = validate_chunks(module, [], pre, 1, os.path.join(wd, "confirm-obs-tlc-" + module))
            bad = set(line for (_, line, _) in rejects)
            for i, f in enumerate(fs, 1):
                if i in bad:
                    out.append(f)
    return out


def replay_case(case):
    rp = case["replay"]
    prop = rp["property"]
    wd = workdir("replay-grammar")
    if rp.get("tape"):
        sub = os.path.join(wd, "tape.ndjson")
        with open(sub, "w") as fh:
            fh.write(rp["tape"] + "\n")
        stats, findings, obs = replay(sub, prop, rp.get("tier", "quick"), wd, "replay")
        bad = [f for f in findings if f["prop"] == prop]
        return ("reproduced: %s %s" % (bad[0]["kind"], bad[0]["detail"][:200])) if bad else None
    if rp.get("rawline"):
        sub = os.path.join(wd, "raw.ndjson")
        with open(sub, "w") as fh:
            fh.write(rp["rawline"] + "\n")
        stats, findings, obs = replay_raw(sub, prop, rp.get("tier", "quick"), wd, "replay-raw")
        bad = [f for f in findings if f["prop"] == prop]
        return ("reproduced: %s %s" % (bad[0]["kind"], bad[0]["detail"][:200])) if bad else None
    if rp.get("generated"):
        chk = Check(prop, "quick", "model_checking")
        return ("ast/%s still differs from the generator output" % rp["generated"]) if rp["generated"] in generated_sources(chk, wd) else None
    if rp.get("obs"):
        pre = os.path.join(wd, "obs")
        with open(pre + ".0.ndjson", "w") as fh:
            fh.write(json.dumps(rp["obs"]) + "\n")
        cnt, rejects, _, _ = validate_chunks(OBS_MODULE[prop], [], pre, 1, os.path.join(wd, "obs-tlc"))
        return "recorded observation rejected again (note: a recorded observation, not a fresh run)" if rejects else None
    return None
