#!/bin/bash
# usage: seed2.sh <ID> [extra check ids]  : verify $SRC/<ID>/patch{1,2,3} (default /tmp/seed2) as <ID>-(OFFSET+1..3) (default 3) and run the property's check on them
id=$1; shift
src=${SRC:-/tmp/seed2}; off=${OFFSET:-3}
for k in 1 2 3; do
  n=$((k+off))
  SEED_NAME=$id-$n python3 /verif/lib/seedverify.py $src/$id $k $id 2>&1 | tail -1 | cut -c1-220
  [ -f /verif/seeded/$id-$n/patch.diff ] && python3 /verif/lib/seedtest.py /verif/seeded/$id-$n/patch.diff $id "$@" 2>&1 | cut -c1-260
done
