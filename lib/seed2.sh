#!/bin/bash
# usage: seed2.sh <ID> [extra check ids]  : verify /tmp/seed2/<ID>/patch{1,2,3} as <ID>-4..6 and run the property's check on them
id=$1; shift
for k in 1 2 3; do
  n=$((k+3))
  SEED_NAME=$id-$n python3 /verif/lib/seedverify.py /tmp/seed2/$id $k $id 2>&1 | tail -1 | cut -c1-220
  [ -f /verif/seeded/$id-$n/patch.diff ] && python3 /verif/lib/seedtest.py /verif/seeded/$id-$n/patch.diff $id "$@" 2>&1 | cut -c1-260
done
