"""./check replay <path>: re-run one recorded failing case against the real code built from /repo."""
import importlib
import json

import common

FAMILY_MODULE = {"lexer": "fam_lexer", "simple": "fam_simple", "parser": "fam_parser", "grammar": "fam_grammar", "compose": "fam_compose", "sched": "fam_sched"}


def main(path):
    with open(path) as fh:
        case = json.load(fh)
    rp = case.get("replay") or {}
    fam = rp.get("family")
    if fam not in FAMILY_MODULE:
        raise common.Infra("unknown replay family %r" % fam)
    mod = importlib.import_module(FAMILY_MODULE[fam])
    still = (mod.replay_case if hasattr(mod, "replay_case") else mod.replay)(case)
    if still:
        print("VIOLATION property=%s replay=%s" % (case["property"], path))
        print("  reproduced:", still)
        return 1
    print("not reproduced on the current tree: property=%s %s" % (case["property"], path))
    return 0
