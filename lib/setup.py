"""./check setup: build the harness from files on disk, parse every specification with SANY."""
import os
import subprocess
import sys

import common


def main():
    os.makedirs(common.WORK, exist_ok=True)
    common.build_harness()
    wd = common.workdir("setup")
    bad = 0
    mods = sorted(f for f in os.listdir(common.SPEC) if f.endswith(".tla"))
    for f in mods:
        import shutil
        shutil.copyfile(os.path.join(common.SPEC, f), os.path.join(wd, f))
    def sany(f):
        p = subprocess.run(["java", "-cp", common.TLA_CP, "tla2sany.SANY", f], cwd=wd, text=True,
                           stdout=subprocess.PIPE, stderr=subprocess.STDOUT)
        return f, p.returncode == 0 and "Semantic errors" not in p.stdout and "***Parse Error***" not in p.stdout, p.stdout
    for f, ok, out in common.parallel([(lambda f=f: sany(f)) for f in mods], 8):
        if not ok:
            bad += 1
            print("SANY failed on", f, "\n", out[-1500:])
    print("setup: harness built, %d/%d specification modules parse" % (len(mods) - bad, len(mods)))
    if bad:
        return 2
    return binding_selftest(wd)


def binding_selftest(wd):
    """The trace specifications must accept what the real code does and REJECT a corrupted copy of it:
    one logged field changed, one hook event dropped.  (A spec that accepts everything binds nothing.)"""
    import json
    inputs = ["SELECT (1 +) + f(x); SELECT a.b FROM t -- c\n", "SELECT 1 /* c */ , 'x' FROM ARRAY<STRUCT<a INT64>>[]", "SELECT CAST(1 AS STRUCT<a ARRAY<INT64>>), (SELECT 2 +"]
    src = os.path.join(wd, "self.in")
    with open(src, "w") as fh:
        for t in inputs:
            fh.write(json.dumps(list(t.encode())) + "\n")
    ok = True

    def validate(module, prefix, step):
        total, rejects, _, _ = common.validate_chunks(module, [], prefix, 1, os.path.join(wd, "self-" + os.path.basename(prefix)), step_mode=step)
        return len(rejects)

    # lexer traces
    pre = os.path.join(wd, "selflex")
    common.harness_json(["lexrec", "-in", src, "-out", pre])
    good = validate("LexTrace", pre, False)
    recs = [json.loads(l) for l in open(pre + ".0.ndjson")]
    recs[0]["toks"][2]["e"] += 1                      # one token end off by one
    recs[1]["toks"][1]["cs"] = []                     # a comment forgotten
    del recs[2]["toks"][3]                            # a token dropped
    cor = os.path.join(wd, "selflexbad")
    with open(cor + ".0.ndjson", "w") as fh:
        for r in recs:
            fh.write(json.dumps(r) + "\n")
    badn = validate("LexTrace", cor, False)
    print("setup: binding self-test LexTrace: %d rejects on real traces, %d rejects on 3 corrupted traces" % (good, badn))
    ok = ok and good == 0 and badn >= 3
    # parser traces
    pre = os.path.join(wd, "selfpar")
    common.harness_json(["parserec", "-in", src, "-entries", "ParseStatements", "-out", pre])
    good = validate("ParserTrace", pre, True)
    recs = [json.loads(l) for l in open(pre + ".0.ndjson")]
    evs = recs[0]["evs"]
    k = next(i for i, e in enumerate(evs) if e[0] == "R")
    evs[k][11] = 0                                    # the recovery "forgot" to record its error
    evs = recs[1]["evs"]
    k = next(i for i, e in enumerate(evs) if e[0] == "T" and e[2] > 10)
    del evs[k]                                        # one Tok hook event dropped
    evs = recs[2]["evs"]
    k = max(i for i, e in enumerate(evs) if e[0] == "D")
    evs[k][11] += 1                                   # a Bad node claims one token more than was skipped
    cor = os.path.join(wd, "selfparbad")
    with open(cor + ".0.ndjson", "w") as fh:
        for r in recs:
            fh.write(json.dumps(r) + "\n")
    badn = validate("ParserTrace", cor, True)
    print("setup: binding self-test ParserTrace: %d rejects on real traces, %d rejects on 3 corrupted traces" % (good, badn))
    ok = ok and good == 0 and badn >= 3
    # the design model must be able to fail: with the top-level fetch unprotected (the pinned code) NoEscape is violated
    cfg = "CONSTANTS N = 3  MaxDepth = 2  MaxErr = 3  EntryFetchProtected = FALSE\nSPECIFICATION Spec\nCONSTRAINT Constraint\nINVARIANTS NoEscape ErrorContract BadExact BadInRange\nCHECK_DEADLOCK FALSE\n"
    r = common.tlc("ParserRuntime", cfg, os.path.join(wd, "pr-pinned"), workers=4, heap="4g", timeout=600, name="ParserRuntime_pinned")
    print("setup: ParserRuntime with the unprotected top-level fetch: violated invariant = %s (expected NoEscape)" % r.violated)
    ok = ok and r.violated == "NoEscape"
    if not ok:
        print("setup: binding self-test FAILED")
        return 2
    return 0
