"""./check setup: build the harness from files on disk, parse every specification with SANY."""
import os
import subprocess
import sys

import common


def main():
    os.makedirs(common.WORK, exist_ok=True)
    common.build_harness()
    wd = common.workdir("setup")
    bad = 0
    mods = sorted(f for f in os.listdir(common.SPEC) if f.endswith(".tla"))
    for f in mods:
        import shutil
        shutil.copyfile(os.path.join(common.SPEC, f), os.path.join(wd, f))
    def sany(f):
        p = subprocess.run(["java", "-cp", common.TLA_CP, "tla2sany.SANY", f], cwd=wd, text=True,
                           stdout=subprocess.PIPE, stderr=subprocess.STDOUT)
        return f, p.returncode == 0 and "Semantic errors" not in p.stdout and "***Parse Error***" not in p.stdout, p.stdout
    for f, ok, out in common.parallel([(lambda f=f: sany(f)) for f in mods], 8):
        if not ok:
            bad += 1
            print("SANY failed on", f, "\n", out[-1500:])
    print("setup: harness built, %d/%d specification modules parse" % (len(mods) - bad, len(mods)))
    return 0 if bad == 0 else 2
