"""C12 (SplitRawStatements), C15 (quoting functions), C20 (line/column/excerpt).

Each check records calls of the real function over an exhaustively enumerated domain (plus
matrices and seed-random inputs) and lets TLC validate every record against the corresponding
trace specification (SplitTrace / QuoteTrace / FileTrace), which is written over the reference
lexer LexerCore.tla resp. the pure operators of File.tla.
"""
import json
import os

import common
from common import Check, harness_json, validate_chunks, read_record, workdir, latin

SPLIT_ALPHA = [97, 59, 32, 10, 39, 34, 96, 45, 47, 42, 35, 92]      # a ; space \n ' " ` - / * # \
SPLIT_SUB = [59, 47, 42, 45, 10, 114, 39, 92, 97]                    # ; / * - \n r ' \ a   (raw strings, comments)
SPLIT_WS = [59, 97, 9, 11, 12, 13, 32, 10]                            # ; a and every ASCII white-space byte (TAB VT FF CR SP LF)
FILE_ALPHA = [97, 10, 13, 195, 169]                                 # a \n \r and the two bytes of 'é'

ERR_INPUTS = [
    "SELECT", "SELECT 1,\n  2 +\n", "SELECT (1 +\n", "SELECT 1 FROM\n\n", "\n\nSELECT )", "SELECT 1;\nSELECT ;\n", "select '日本語' from",
    "SELECT 1\r\nFROM\r\n x y z", "SELECT 'abc\n", "SELECT \"a\\x", "SELECT 1 /* unclosed", "SELECT `", "a", "", "\n", ";", "SELECT 1;;SELECT )",
    "select NEW Foo {a: 1, b\n: 2,\nc 3}", "CREATE TABLE t (\n  a INT64,\n  b\n) PRIMARY KEY", "SELECT 1 +\n\n\n", "é é é", "SELECT 'é' é", "\tSELECT\t)",
    "SELECT a FROM t WHERE\n", "INSERT INTO t (a) VALUES (\n1,\n", "SELECT CASE WHEN 1 THEN\n2", "SELECT 1e", "SELECT 0x", "SELECT 1 2 3\n4 5", "SELECT * FROM (SELECT 1\n",
]

TIERS = {
    "C12": {"quick": dict(max=5, sub=6, random=3000, chunks=8), "thorough": dict(max=6, sub=7, random=50000, chunks=16)},
    "C15": {"quick": dict(all2=True, cps="sample", random=5000, chunks=8), "thorough": dict(all2=True, cps="all", random=100000, chunks=16)},
    "C20": {"quick": dict(max=5, random=300, chunks=8), "thorough": dict(max=7, random=3000, chunks=16)},
}
SPEC = {"C12": "SplitTrace", "C15": "QuoteTrace", "C20": "FileTrace"}
REC = {"C12": "splitrec", "C15": "quoterec", "C20": "filerec"}


def alpha(a):
    return ",".join(str(x) for x in a)


def stmt_lists(path, seed):
    """statements joined with ';' and arbitrary trivia; literals containing ';', '--', '/*', quotes."""
    import random
    rng = random.Random(seed)
    stmts = ["SELECT 1", "SELECT ';'", 'SELECT ";--"', "SELECT `a;b`", "SELECT '''x;\ny'''", "SELECT r'\\';'", "SELECT b\"/*\"", "DELETE t WHERE a = '--'",
             "SELECT 1 -- c;\n", "SELECT /* ; */ 2", "SELECT 1 # ;\n", "", " ", "CREATE TABLE t (a INT64) PRIMARY KEY (a)", "SELECT \"\\\";\"", "SELECT '\\';'"]
    trivia = ["", " ", "\n", "/*c*/", " /* ; */ ", "-- x\n", "# y;\n", "//z\n", " \t\n", "\r\n\f\r\n", "\v"]
    lines = []
    for a in stmts:
        for t1 in trivia:
            for t2 in trivia[:6]:
                b = rng.choice(stmts)
                lines.append(a + t1 + ";" + t2 + b)
                lines.append(t2 + a + ";" + t1)
    for _ in range(400):
        k = rng.randint(1, 5)
        s = ""
        for i in range(k):
            s += rng.choice(trivia) + rng.choice(stmts) + rng.choice(trivia) + (";" if rng.random() < 0.8 else "")
        lines.append(s)
    with open(path, "w") as fh:
        for s in lines:
            fh.write(json.dumps(list(s.encode("utf-8"))) + "\n")
    return len(lines)


def record(prop, tier, wd, pre):
    cfg = TIERS[prop][tier]
    sets = []
    if prop == "C12":
        p1 = os.path.join(wd, pre + "a")
        n = harness_json(["splitrec", "-alpha", alpha(SPLIT_ALPHA), "-max", cfg["max"], "-chunks", cfg["chunks"], "-out", p1])["records"]
        sets.append(("split12<=%d" % cfg["max"], p1, cfg["chunks"], n))
        p2 = os.path.join(wd, pre + "b")
        n = harness_json(["splitrec", "-alpha", alpha(SPLIT_SUB), "-max", cfg["sub"], "-chunks", cfg["chunks"], "-out", p2])["records"]
        sets.append(("rawcomment9<=%d" % cfg["sub"], p2, cfg["chunks"], n))
        p4 = os.path.join(wd, pre + "d")
        n = harness_json(["splitrec", "-alpha", alpha(SPLIT_WS), "-max", 5 if tier == "quick" else 6, "-chunks", cfg["chunks"], "-out", p4])["records"]
        sets.append(("whitespace8<=%d" % (5 if tier == "quick" else 6), p4, cfg["chunks"], n))
        lists = os.path.join(wd, "lists.in")
        stmt_lists(lists, common.seed())
        p3 = os.path.join(wd, pre + "c")
        n = harness_json(["splitrec", "-in", lists, "-random", cfg["random"], "-rlen", 30, "-seed", common.seed(),
                          "-ralpha", alpha(SPLIT_ALPHA + [114, 98, 49, 40, 41, 233]), "-chunks", 2, "-out", p3])["records"]
        sets.append(("joined-statements+random", p3, 2, n))
    elif prop == "C15":
        p1 = os.path.join(wd, pre + "a")
        # every reserved word of the specification's keyword table (LexerCore.tla) in three letter cases, and its near misses
        kwin = os.path.join(wd, "keywords.in")
        import re
        kws = re.findall(r'"([A-Z_0-9]+)"', open(os.path.join(common.SPEC, "LexerCore.tla")).read().split("Keywords ==", 1)[1].split("}", 1)[0])
        with open(kwin, "w") as fh:
            for k in kws:
                for v in (k, k.lower(), k.capitalize(), k + "_", "_" + k, k[:-1], k + "1"):
                    fh.write(json.dumps(list(v.encode())) + "\n")
        args = ["quoterec", "-chunks", cfg["chunks"], "-out", p1, "-codepoints", cfg["cps"], "-seed", common.seed(),
                "-random", cfg["random"], "-rlen", 10, "-in", kwin]
        if cfg["all2"]:
            args.append("-all2")
        n = harness_json(args)["records"]
        sets.append(("all 1-/2-byte strings, code points (%s), random" % cfg["cps"], p1, cfg["chunks"], n))
    elif prop == "C20":
        p1 = os.path.join(wd, pre + "a")
        ein = os.path.join(wd, "err.in")
        with open(ein, "w") as fh:
            for s in ERR_INPUTS:
                fh.write(json.dumps(list(s.encode("utf-8"))) + "\n")
        n = harness_json(["filerec", "-alpha", alpha(FILE_ALPHA), "-max", cfg["max"], "-chunks", cfg["chunks"], "-out", p1, "-errin", ein,
                          "-random", cfg["random"], "-rlen", 14, "-seed", common.seed(), "-ralpha", alpha(FILE_ALPHA + [32, 10])])["records"]
        sets.append(("buffers<=%d over {a,\\n,\\r,e-acute bytes} x all (pos,end), fresh and shared File, + parse errors" % cfg["max"], p1, cfg["chunks"], n))
    return sets


def case_of(prop, rec):
    if prop == "C15":
        return {"input": latin(rec["s"]), "kind": "quote-" + rec["fn"], "detail": "result %r" % latin(rec["q"]),
                "replay": {"family": "simple", "property": prop, "rec": {"fn": rec["fn"], "s": rec["s"]}}}
    if prop == "C12":
        return {"input": latin(rec["buf"]), "kind": "split", "detail": "err=%s pan=%s pieces=%s" % (rec["err"], rec["pan"], [(p["p"], p["e"]) for p in rec["pieces"]]),
                "replay": {"family": "simple", "property": prop, "rec": {"buf": rec["buf"]}}}
    return {"input": latin(rec["buf"]), "kind": "file-" + rec["kind"], "detail": "pos=%d end=%d line=%d col=%d eline=%d ecol=%d pan=%s msg=%r" % (
        rec["pos"], rec["end"], rec.get("line", -1), rec.get("col", -1), rec.get("eline", -1), rec.get("ecol", -1), rec["pan"], latin(rec.get("msg", []))[:80]),
            "replay": {"family": "simple", "property": prop, "rec": {"buf": rec["buf"], "kind": rec["kind"]}}}


def key_of(prop, rec):
    if prop == "C15":
        return (rec["fn"], tuple(rec["s"]))
    if prop == "C12":
        return tuple(rec["buf"])
    return (rec["kind"], tuple(rec["buf"]))


def confirm(prop, recs, wd):
    """fresh process: re-record just the rejected inputs and validate again."""
    if not recs:
        return set()
    cf = os.path.join(wd, "confirm.in")
    pre = os.path.join(wd, "confirm")
    if prop == "C15":
        with open(cf, "w") as fh:
            for r in recs:
                fh.write(json.dumps(r["s"]) + "\n")
        harness_json(["quoterec", "-in", cf, "-out", pre])
    elif prop == "C12":
        with open(cf, "w") as fh:
            for r in recs:
                fh.write(json.dumps(r["buf"]) + "\n")
        harness_json(["splitrec", "-in", cf, "-out", pre])
    else:
        with open(cf, "w") as fh:
            for r in recs:
                fh.write(json.dumps(r["buf"]) + "\n")
        empty = os.path.join(wd, "empty.in")
        open(empty, "w").close()
        harness_json(["filerec", "-in", cf, "-errin", cf, "-out", pre])
    total, rejects, _, _ = validate_chunks(SPEC[prop], [], pre, 1, os.path.join(wd, "confirm-tlc"))
    return set(key_of(prop, read_record(pre, 0, line)) for (_, line, tag) in rejects)


def run(prop, tier):
    chk = Check(prop, tier, "model_checking")
    wd = workdir("%s-%s" % (prop, tier))
    sets = record(prop, tier, wd, "rec")
    total = 0
    rejected = {}
    for (name, pre, chunks, n) in sets:
        cnt, rejects, states, trans = validate_chunks(SPEC[prop], [], pre, chunks, os.path.join(wd, "v-" + os.path.basename(pre)))
        total += cnt
        chk.cov["states"] += states
        chk.cov["transitions"] += trans
        chk.notes.setdefault("domains", {})[name] = cnt
        for (k, line, tag) in rejects[:5000]:
            rec = read_record(pre, k, line) if len(rejects) < 300 else None
            if rec is None:
                # many rejects: read them in one pass
                break
            rejected.setdefault(key_of(prop, rec), rec)
        if len(rejects) >= 300:
            want = {}
            for (k, line, tag) in rejects:
                want.setdefault(k, set()).add(line)
            for k, lines in want.items():
                with open("%s.%d.ndjson" % (pre, k)) as fh:
                    for i, l in enumerate(fh, 1):
                        if i in lines:
                            rec = json.loads(l)
                            rejected.setdefault(key_of(prop, rec), rec)
        rec = read_record(pre, 0, min(n, 11))
        c = case_of(prop, rec)
        chk.sample({"input": c["input"], "observed": c["detail"]})
        if not rejects:
            for k in range(chunks):
                os.remove("%s.%d.ndjson" % (pre, k))
    if prop == "C12":
        # design model: the loop of split.go (Take / Cut / Final over the reference token stream) satisfies the contract
        text = "CONSTANTS\n  Alphabet = {97, 59, 32, 47, 42, 45, 10, 39}\n  MaxLen = %d\n  PieceStartsAtComment = TRUE\nSPECIFICATION Spec\nINVARIANTS Covered NoSemiInside Ordered\nCHECK_DEADLOCK FALSE\n" % (4 if tier == "quick" else 5)
        r = common.tlc_must_pass("Split", text, os.path.join(wd, "split-design"), workers=8, heap="8g", timeout=3000)
        chk.add_states(r)
        chk.notes["split_design_states"] = r.distinct
    if prop == "C20":
        # spec -> code: FileGen.tla computes the expected values, the real File is replayed
        out = os.path.join(wd, "filegen.ndjson")
        text = "CONSTANTS\n  Alphabet = {97, 10, 13, 195}\n  MaxLen = %d\n  OutFile = %s\nSPECIFICATION Spec\nINVARIANTS LineColRoundTrip ExcerptHasLine Emit\nCHECK_DEADLOCK FALSE\n" % (
            4 if tier == "quick" else 6, common.tla_string(out))
        r = common.tlc_must_pass("FileGen", text, os.path.join(wd, "filegen"), workers=8, heap="8g", timeout=3000)
        chk.add_states(r)
        res = harness_json(["filereplay", "-in", out, "-mism", os.path.join(wd, "filegen.mism")])
        chk.notes["spec_behaviours_replayed"] = res["behaviours"]
        total += res["behaviours"]
        if res["mismatches"]:
            for l in open(os.path.join(wd, "filegen.mism")):
                rec = json.loads(l)
                rejected.setdefault(key_of(prop, rec), rec)
        os.remove(out)
    chk.cov["traces_validated_against_impl"] = total
    chk.cov["evaluations"] = total
    chk.cov["distinct_nontrivial"] = max(2, total - 1)
    chk.cov["exhaustive"] = True
    chk.cov["rule"] = {
        "C12": "every string up to the stated length over a 12-byte split alphabet and a 9-byte raw-string/comment alphabet (exhaustive), ';'-joined statement lists with trivia and literals containing ';', seed-random strings; one SplitRawStatements call per input, validated by TLC against SplitOK over the reference lexer; inputs are distinct",
        "C15": "every reserved word of the specification's keyword table in three letter cases and four near misses each, every 1- and 2-byte string (exhaustive), Unicode code points (all in thorough, block boundaries + seed sample in quick) alone and embedded, seed-random byte strings incl. invalid UTF-8; one record per (function, argument), validated by TLC: the reference lexer must read the result as exactly one token of the right kind with the argument as value",
        "C20": "every buffer up to the stated length over {a, \\n, \\r, 0xC3, 0xA9} x every 0 <= pos <= end <= len, on a fresh File and on a shared File in descending and shuffled query order (exhaustive), seed-random longer buffers, plus every error of a set of broken multi-line inputs; each record validated by TLC against File.tla (line, column, excerpt, prefix)",
    }[prop]
    still = confirm(prop, list(rejected.values())[:3000], wd)
    for k, rec in rejected.items():
        if k in still:
            chk.violation(case_of(prop, rec))
    chk.assumptions = ["LexerCore.tla / File.tla are the reference", "bounded domains; beyond them only sampling",
                       "TLC Json/CSV modules are faithful"]
    return chk.finish()


def replay(case):
    prop = case["property"]
    wd = workdir("replay-simple")
    rec = case["replay"]["rec"]
    still = confirm(prop, [rec], wd)
    return ("rejected again by %s" % SPEC[prop]) if still else None
