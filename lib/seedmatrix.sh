#!/bin/bash
# usage: seedmatrix.sh <ID> [extra check ids...]  : runs the property's own check against its three seeds
id=$1; shift
for k in 1 2 3; do
  [ -f /verif/seeded/$id-$k/patch.diff ] && python3 /verif/lib/seedtest.py /verif/seeded/$id-$k/patch.diff $id "$@" 2>&1 | cut -c1-260
done
