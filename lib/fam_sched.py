"""C18: parsing is a pure function (deterministic, re-entrant, no shared mutable state).

Sched.tla enumerates every interleaving of K workers x G gate points; the harness, built with the
race detector, replays each schedule with the hook sink as scheduler gate (one fresh process per
input tuple, so that first-use initialisation happens under concurrency), runs the same calls
sequentially in the same history, ordered pairs of calls and re-digests kept results; TLC checks
on every history that the result is a function of the arguments (PureTrace.tla) and that no node
is shared between results.  A report of Go's race detector during the replays fails the check.
"""
import json
import os
import subprocess

import common
from common import Check, Infra, validate_chunks, read_record, workdir, tlc_must_pass, tla_string, log

TIERS = {"quick": dict(scheds=[(2, 5), (3, 3)], tuples=6, pairs=30, poolstep=8, poolworkers=6),
         "thorough": dict(scheds=[(2, 7), (3, 4), (4, 2)], tuples=24, pairs=60, poolstep=1, poolworkers=8)}
# one input per lexical mechanism (escapes of every kind, raw / bytes / triple-quoted literals, numbers, quoted identifiers, parameters, comments)
LEXICAL = [("expr", t) for t in (r'"\u00e9\U0001F600\x41\101\n"', r"b'\xff\377\a'", r"r'\u00e9'", r"rb'''a\'b'''", r'"" "a\u0041b"', "0x1F + 1.5e10 - .5E-3", r"`a\u00e9b`.`c`",
                                 "@p + @@sys", "a /* c */ + -- d\n b # e\n")]

BROKEN = [("type", "INT64."), ("type", "ARRAY<INT64"), ("query", "SELECT 1 AS s ."), ("query", "SELECT * FROM t LIMIT @n."), ("expr", "a."), ("expr", "f(x)."), ("expr", "(1 +"),
          ("statement", "SELECT"), ("ddl", "CREATE TABLE t (a INT64"), ("dml", "INSERT INTO t"), ("expr", "CAST(a AS ARRAY<STRUCT<x INT64, y STRING>>)"), ("type", "STRUCT<a ARRAY<DATE>>"),
          ("expr", "a.b.c[OFFSET(1)].d"), ("query", "SELECT a.1, b.all FROM t"), ("statement", "SELECT 1; \x00"), ("expr", "1a"), ("query", "SELECT 'abc"), ("type", "DATE"), ("type", "DATE")]


def make_pool(wd):
    pool = os.path.join(wd, "pool.ndjson")
    n = 0
    with open(pool, "w") as out:
        for d, t in BROKEN:
            out.write(json.dumps({"dir": d, "buf": list(t.encode("latin-1"))}) + "\n")
            n += 1
        for i, l in enumerate(open(os.path.join(common.VERIF, "corpus", "testdata_inputs.ndjson"))):
            if i % 5 == 0:
                r = json.loads(l)
                out.write(json.dumps({"dir": r["dir"], "buf": list(r["text"].encode("utf-8"))}) + "\n")
                n += 1
    return pool, n


def run_sched(args, wd, tag):
    """returns (histories, race_report or None)"""
    b = common.build_harness(race=True)
    env = common.goenv()
    env["GORACE"] = "halt_on_error=1 exitcode=66"
    p = subprocess.run([b, "sched"] + [str(a) for a in args], env=env, text=True, stdout=subprocess.PIPE, stderr=subprocess.PIPE, timeout=3600)
    if p.returncode == 66 or "WARNING: DATA RACE" in p.stderr:
        return 0, p.stderr[:3000]
    if p.returncode != 0:
        raise Infra("sched failed (%d): %s %s" % (p.returncode, p.stdout[-500:], p.stderr[-1500:]))
    last = [l for l in p.stdout.splitlines() if l.startswith("{")]
    return json.loads(last[-1])["histories"], None


def run(prop, tier):
    chk = Check(prop, tier, "model_checking")
    cfg = TIERS[tier]
    wd = workdir("%s-%s" % (prop, tier))
    pool, npool = make_pool(wd)
    files = []
    races = []
    # sequential phase
    seq = os.path.join(wd, "hist-seq.0.ndjson")
    n, race = run_sched(["-pool", pool, "-out", seq, "-pairs", cfg["pairs"]], wd, "seq")
    if race:
        races.append(({"phase": "sequential"}, race))
    else:
        files.append(seq)
    log("sequential phase: %d histories" % n)
    # whole-pool phase: every upstream test input, the broken and lexical inputs and single-fault mutants (Faults.tla),
    # each called by every worker without synchronisation
    import fam_parser
    pwd = os.path.join(wd, "tokfaults")
    os.makedirs(pwd, exist_ok=True)
    seeds, nseeds = fam_parser.make_seeds(pwd)
    faults = fam_parser.gen_faults(chk, tier, pwd, seeds, nseeds)
    big = os.path.join(wd, "bigpool.ndjson")
    nbig = 0
    with open(big, "w") as out:
        for d, t in BROKEN + LEXICAL:
            out.write(json.dumps({"dir": d, "buf": list(t.encode("latin-1"))}) + "\n")
            nbig += 1
        for l in open(os.path.join(common.VERIF, "corpus", "testdata_inputs.ndjson")):
            r = json.loads(l)
            out.write(json.dumps({"dir": r["dir"], "buf": list(r["text"].encode("utf-8"))}) + "\n")
            nbig += 1
        for i, l in enumerate(open(faults)):
            if i % cfg["poolstep"] == 0:
                out.write(l if l.endswith("\n") else l + "\n")
                nbig += 1
    ph = os.path.join(wd, "hist-pool.0.ndjson")
    n, race = run_sched(["-pool", big, "-out", ph, "-freepool", cfg["poolworkers"]], wd, "pool")
    if race:
        races.append(({"phase": "whole-pool"}, race))
    else:
        files.append(ph)
    # stress phase: long statement lists made of copies of every upstream / lexical input, workers released together
    sp = os.path.join(wd, "stresspool.ndjson")
    nsp = 0
    with open(sp, "w") as out:
        for d, t in LEXICAL:
            out.write(json.dumps({"dir": d, "buf": list(t.encode("latin-1"))}) + "\n")
            nsp += 1
        for i, l in enumerate(open(os.path.join(common.VERIF, "corpus", "testdata_inputs.ndjson"))):
            if tier == "thorough" or i % 2 == 0:
                r = json.loads(l)
                out.write(json.dumps({"dir": r["dir"], "buf": list(r["text"].encode("utf-8"))}) + "\n")
                nsp += 1
    sh = os.path.join(wd, "hist-stress.0.ndjson")
    n, race = run_sched(["-pool", sp, "-out", sh, "-stress", cfg["poolworkers"]], wd, "stress")
    if race:
        races.append(({"phase": "stress"}, race))
    else:
        files.append(sh)
    chk.notes["stress"] = {"inputs": nsp, "rounds": 2, "workers": cfg["poolworkers"]}
    log("stress phase: %d histories" % n)
    chk.notes["whole_pool"] = {"calls": nbig, "workers": cfg["poolworkers"]}
    log("whole-pool phase: %d calls x %d workers" % (nbig, cfg["poolworkers"]))
    # schedules
    for (k, g) in cfg["scheds"]:
        out = os.path.join(wd, "scheds-%d-%d.ndjson" % (k, g))
        text = "CONSTANTS\n  K = %d\n  G = %d\n  OutFile = %s\nSPECIFICATION Spec\nINVARIANTS Independent Emit\nPROPERTY SharedReadOnly\nCHECK_DEADLOCK FALSE\n" % (k, g, tla_string(out))
        r = tlc_must_pass("Sched", text, os.path.join(wd, "sched-%d-%d" % (k, g)), workers=8, heap="6g", timeout=3000, name="Sched_%d_%d" % (k, g))
        chk.add_states(r)
        nsch = sum(1 for _ in open(out))
        chk.notes.setdefault("schedules", {})["%dx%d" % (k, g)] = nsch

        def one(t, k=k, g=g, out=out):
            h = os.path.join(wd, "hist-%d-%d-%d.0.ndjson" % (k, g, t))
            n, race = run_sched(["-pool", pool, "-scheds", out, "-tuple", t, "-k", k, "-out", h], wd, "t%d" % t)
            return (h, n, race, {"phase": "schedules", "k": k, "g": g, "tuple": t})
        for (h, n, race, info) in common.parallel([lambda t=t: one(t) for t in range(cfg["tuples"])], 6):
            if race:
                races.append((info, race))
            else:
                files.append(h)
        log("replayed %d schedules of %d workers x %d gates on %d tuples" % (nsch, k, g, cfg["tuples"]))
    # TLC: the result is a function of the arguments
    total = 0
    bad = []
    def val(f):
        pre = f[:-len(".0.ndjson")]
        return pre, validate_chunks("PureTrace", [], pre, 1, os.path.join(wd, "v-" + os.path.basename(pre)), heap="3g")
    for (pre, (cnt, rejects, states, trans)) in common.parallel([lambda f=f: val(f) for f in files], 8):
        total += cnt
        chk.cov["states"] += states
        chk.cov["transitions"] += trans
        for (k, line, tag) in rejects[:50]:
            bad.append((pre, read_record(pre, 0, line)))
    chk.cov["traces_validated_against_impl"] = total
    chk.cov["evaluations"] = total
    chk.cov["distinct_nontrivial"] = max(2, total)
    chk.cov["exhaustive"] = True
    chk.cov["rule"] = ("histories: (i) every interleaving (TLC, Sched.tla) of K workers x G token-fetch gates, replayed with the hook as scheduler gate on several input tuples in fresh "
                       "race-detector processes, followed by the same calls sequentially and by ungated concurrent calls through the package helpers; (ii) a sequential process: baseline "
                       "pass, ordered pairs, repeats, SplitRawStatements, kept results digested again; (iii) whole-pool phase: every upstream test input, broken and lexical inputs and "
                       "single-fault mutants (Faults.tla), each called once by every one of N unsynchronised workers in one race-detector process; (iv) stress phase: for every upstream and lexical "
                       "input a statement list of up to 300 copies parsed by N workers released together (same input, then neighbouring inputs); one TLC record per history")
    if bad:
        rec = bad[0][1]
        chk.sample({"history": rec["kind"], "calls": [(c["entry"], c["input"][:40], c["res"]) for c in rec["calls"][:4]]})
    else:
        rec = read_record(files[-1][:-len(".0.ndjson")], 0, 1)
        chk.sample({"history": rec["kind"], "schedule": rec.get("sched"), "calls": [(c["entry"], c["input"][:40], c["res"]) for c in rec["calls"][:4]]})
    # confirm by running the whole phase again in fresh processes (a schedule-dependent result need not repeat: report only what repeats)
    if bad:
        seq2 = os.path.join(wd, "confirm-seq.0.ndjson")
        again = set()
        n, race = run_sched(["-pool", pool, "-out", seq2, "-pairs", cfg["pairs"]], wd, "seq2")
        if not race:
            cnt, rejects, _, _ = validate_chunks("PureTrace", [], seq2[:-len(".0.ndjson")], 1, os.path.join(wd, "v-confirm-seq"), heap="3g")
            for (_, line, _) in rejects:
                r = read_record(seq2[:-len(".0.ndjson")], 0, line)
                again.add(tuple((c["entry"], c["input"]) for c in r["calls"]))
        for (pre, rec) in bad:
            key = tuple((c["entry"], c["input"]) for c in rec["calls"])
            if rec["kind"] in ("sequential", "kept") and key not in again:
                continue
            if rec["kind"] == "stress":
                pass
            if rec["kind"] == "pool" and not pool_again(rec, wd):
                continue
            differing = [c for c in rec["calls"] if any(d["args"] == c["args"] and d["res"] != c["res"] for d in rec["calls"])] or [c for c in rec["calls"] if c["shared"]]
            c = differing[0] if differing else rec["calls"][0]
            chk.violation({"input": c["input"], "entry": c["entry"], "kind": "C18-impure-" + rec["kind"],
                           "detail": "history %s: %s" % (rec["kind"], [(x["entry"], x["input"][:30], x["res"], x["shared"]) for x in rec["calls"][:6]]),
                           "replay": {"family": "sched", "property": prop, "tier": tier}})
    for (info, race) in races:
        # confirm: run again
        chk.violation({"input": json.dumps(info), "kind": "C18-data-race", "detail": race[:600], "replay": {"family": "sched", "property": prop, "tier": tier}})
    chk.assumptions = ["'without data races' is observed by Go's race detector while TLC-generated schedules are replayed (not a TLC verdict)",
                       "gate points = token fetches (hook TokBegin); gated workers build their Parser by hand like parse_helpers.go does"]
    return chk.finish()


def pool_again(rec, wd):
    """a fresh process repeats the call of a rejected whole-pool history"""
    c = rec["calls"][0]
    d = {"ParseDDL": "ddl", "ParseDML": "dml", "ParseQuery": "query", "ParseExpr": "expr", "ParseType": "type"}.get(c["entry"], "statement")
    one = os.path.join(wd, "pool-again.ndjson")
    with open(one, "w") as fh:
        for _ in range(4):
            fh.write(json.dumps({"dir": d, "text": c["input"]}) + "\n")
    h = os.path.join(wd, "pool-again-hist.0.ndjson")
    n, race = run_sched(["-pool", one, "-out", h, "-freepool", 4], wd, "pool-again")
    if race:
        return True
    cnt, rejects, _, _ = validate_chunks("PureTrace", [], h[:-len(".0.ndjson")], 1, os.path.join(wd, "v-pool-again"), heap="3g")
    return bool(rejects)


def replay_case(case):
    rc = run(case["replay"]["property"], case["replay"].get("tier", "quick"))
    return "check fails again" if rc == 1 else None
