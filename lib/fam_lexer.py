"""C13 (lexing is lossless) and C14 (lexer conforms to the lexical structure).

code -> spec : the real lexer is driven over every string up to a length over the lexically
               significant alphabet SIGMA24, over sub-alphabets to greater length, and over
               seed-random strings; every recorded NextToken loop is validated by TLC against
               LexTrace.tla (C13 on the logged values, C14 against the reference lexer).
spec -> code : LexGen.tla enumerates buffers, checks the C13 invariants on the specification's own
               behaviour and emits expected streams which are replayed into the real lexer.
"""
import json
import os

import common
from common import Check, Infra, harness_json, validate_chunks, read_record, workdir, tlc_must_pass, latin

# a b r x e _ 0 1 8 . - + / * # ' " ` \ < > = ; space newline   (24 lexically significant bytes + 'u' for \u)
SIGMA24 = [97, 98, 114, 120, 101, 95, 48, 49, 56, 46, 45, 43, 47, 42, 35, 39, 34, 96, 92, 60, 62, 61, 59, 32, 10]
SUB = {
    "escapes": [39, 34, 92, 120, 117, 85, 48, 51, 55, 56, 97, 102, 110, 98, 114],   # ' " \ x u U 0 3 7 8 a f n b r
    "numbers": [48, 49, 57, 120, 88, 97, 102, 101, 69, 46, 43, 45, 95, 32],          # 0 1 9 x X a f e E . + - _ space
    "comments": [47, 42, 45, 35, 10, 97, 39, 32, 59],                                # / * - # \n a ' space ;
    "dotmode": [97, 46, 49, 41, 93, 64, 96, 32, 115, 47, 42],                        # a . 1 ) ] @ ` space s / *
    "prefixes": [114, 82, 98, 66, 39, 34, 92, 97, 10],                               # r R b B ' " \ a \n
    "whitespace": [32, 9, 10, 11, 12, 13, 97, 59, 47, 42, 39],                       # every ASCII white-space byte
    "highbytes": [97, 32, 0x85, 0xA0, 0xC2, 0xE3, 0x80, 39, 47, 42],                 # lone and well-formed non-ASCII white space
    # tiny alphabets to greater length: runs whose PARITY matters (stars before '/', quotes in a row, backslashes before a quote)
    "blockcomment": [47, 42, 97],                                                    # / * a
    "quoteruns": [39, 92, 97, 10],                                                   # ' \ a \n
    "dquoteruns": [34, 39, 92, 98],                                                  # " ' \ b
}
KW_SAMPLE = ["select", "SeLeCt", "Null", "nulls", "iN", "ins", "By", "tO", "oF", "of_", "hash", "HASH1", "Interval",
             "proto", "assert_rows_modified", "ASSERT_ROWS_MODIFIE", "Graph_Table", "graph_tabl", "tablesample", "WITHIN", "withi"]

TIERS = {
    "quick": dict(sigma_len=4, subs={"escapes": 4, "numbers": 4, "comments": 4, "dotmode": 4, "prefixes": 4, "highbytes": 4, "whitespace": 4, "blockcomment": 9, "quoteruns": 7, "dquoteruns": 7}, random=4000, rlen=24, gen_len=3, chunks=8),
    "thorough": dict(sigma_len=5, subs={"escapes": 5, "numbers": 5, "comments": 6, "dotmode": 5, "prefixes": 6, "highbytes": 5, "whitespace": 5, "blockcomment": 11, "quoteruns": 9, "dquoteruns": 8}, random=60000, rlen=40, gen_len=4, chunks=16),
}


def alpha(a):
    return ",".join(str(x) for x in a)


def extra_inputs(path):
    """keyword-casing and long-literal inputs that no short enumeration reaches."""
    import itertools
    lines = []
    for w in ["as", "by", "in", "is", "no", "of", "on", "or", "to", "all", "and", "any", "asc", "end", "for", "new", "not", "set", "case", "null", "hash"]:
        for mask in itertools.product([0, 1], repeat=len(w)):
            lines.append("".join(c.upper() if m else c for c, m in zip(w, mask)))
    lines += KW_SAMPLE
    for q in ["'", '"', "'''", '"""']:
        for pre in ["", "r", "R", "b", "B", "rb", "rB", "Rb", "RB", "br", "bR", "Br", "BR"]:
            for body in ["", "a", "\\n", "\\x41", "\\101", "\\u00e9", "\\U0001F600", "\\uD800", "\\U00110000", "\\400", "\\8",
                         "\\", "\\" + q[0], "a\nb", q[0], q[0] * 2, "\\x4", "\\xg1", "\\u12", "\\?\\a\\b\\f\\r\\t\\v\\`\\\\", "\\c", "é", "\xff"]:
                lines.append(pre + q + body + q)
                lines.append(pre + q + body)                      # unterminated
                lines.append(pre + q + body + q + "x")
    for cp in [0, 1, 0x7f, 0x80, 0xa0, 0xff, 0x100, 0x7ff, 0x800, 0xd7ff, 0xd800, 0xdfff, 0xe000, 0xfffd, 0xfffe, 0xffff]:
        for q in ['"', "'", "`"]:
            lines.append("%s\\u%04x%s" % (q, cp, q))
            lines.append("%s\\u%04X%s" % (q, cp, q))
            lines.append("%sa\\U%08x%s" % (q, cp, q))
        lines.append('b"\\u%04x"' % cp)
        lines.append('r"\\u%04x"' % cp)
    for cp in [0x10000, 0x1f600, 0x10ffff, 0x110000, 0xffffffff, 0x7fffffff]:
        lines.append('"\\U%08x"' % cp)
        lines.append('`\\U%08X`' % cp)
    for o in range(0, 512, 7):
        lines.append('"\\%03o"' % o)
        lines.append("b'\\%03o'" % o)
    for h in range(0, 256, 5):
        lines.append('"\\x%02x"' % h)
        lines.append("b'\\X%02X'" % h)
    lines += ["a.1.b", "a.select.from", "a . 1e5", "a.1e5", "1.e5", "1e5.5", ".5e+3", "1..2", "a..b", "@p.all", "f(x).1", "a[1].2b", "`a`.1",
              "0x1F", "0X1f", "0x", "0xg", "1e", "1e+", "1ea", "1.5.2", "1_0", "0x1.5", "- -1", "a-- b\nc", "a//b\nc", "a#b", "a/**/b", "/* /* */ */",
              "/*", "/*/", "/**/", "/***/", "--", "#", "//", "a\xc2\xa0b", "\xe3\x80\x80a", "a\x0bb\x0cc", "<<>>=<>!=||->=>|>@@+=-=", "<>>", ">>>", "!", "$", "?", "\\", "@", "@1", "@@a", "@a-b"]
    with open(path, "w") as fh:
        for s in lines:
            fh.write(json.dumps(list(s.encode("latin-1"))) + "\n")
    return len(lines)


def record(tier, wd):
    """Record the real lexer; returns list of (name, prefix, chunks, exhaustive, count)."""
    cfg = TIERS[tier]
    sets = []
    if cfg["sigma_len"] <= 4:
        pre = os.path.join(wd, "sigma")
        n = harness_json(["lexrec", "-alpha", alpha(SIGMA24), "-max", cfg["sigma_len"], "-chunks", cfg["chunks"], "-out", pre])["records"]
        sets.append(("sigma24<=%d" % cfg["sigma_len"], pre, cfg["chunks"], True, n))
    else:
        # length 5 (9.8 million strings) is streamed: everything up to 4 first, then one batch per first byte
        pre = os.path.join(wd, "sigma")
        n = harness_json(["lexrec", "-alpha", alpha(SIGMA24), "-max", 4, "-chunks", cfg["chunks"], "-out", pre])["records"]
        sets.append(("sigma24<=4", pre, cfg["chunks"], True, n))
        for c in SIGMA24:
            sets.append(("sigma24=5 starting with byte %d" % c, ("lazy", c, cfg["sigma_len"]), cfg["chunks"], True, 0))
    for name, ln in cfg["subs"].items():
        pre = os.path.join(wd, name)
        ch = max(1, cfg["chunks"] // 2)
        n = harness_json(["lexrec", "-alpha", alpha(SUB[name]), "-max", ln, "-chunks", ch, "-out", pre])["records"]
        sets.append(("%s<=%d" % (name, ln), pre, ch, True, n))
    ex = os.path.join(wd, "extra.in")
    extra_inputs(ex)
    pre = os.path.join(wd, "extra")
    n = harness_json(["lexrec", "-in", ex, "-random", cfg["random"], "-rlen", cfg["rlen"], "-seed", common.seed(),
                      "-ralpha", alpha(SIGMA24 + [117, 85, 40, 41, 91, 93, 64, 44, 33, 124, 9, 13, 233, 195, 169, 0, 255]),
                      "-chunks", 2, "-out", pre])["records"]
    sets.append(("extra+random", pre, 2, False, n))
    return sets


def classify(rec):
    b = latin(rec["buf"])
    return b


def confirm(prop, inputs, wd):
    """Re-record the rejected inputs in a fresh process and validate again; returns the set that still fails."""
    if not inputs:
        return {}
    cf = os.path.join(wd, "confirm.in")
    with open(cf, "w") as fh:
        for b in inputs:
            fh.write(json.dumps(list(b)) + "\n")
    pre = os.path.join(wd, "confirm")
    harness_json(["lexrec", "-in", cf, "-out", pre])
    total, rejects, _, _ = validate_chunks("LexTrace", [], pre, 1, os.path.join(wd, "confirm-tlc"))
    still = {}
    for (_, line, tag) in rejects:
        if tag == prop:
            still[tuple(read_record(pre, 0, line)["buf"])] = True
    return still


def gen_replay(chk, tier, wd):
    """spec -> code: LexGen emits expected streams, the harness replays them into the real lexer."""
    cfg = TIERS[tier]
    out = os.path.join(wd, "lexgen.ndjson")
    if os.path.exists(out):
        os.remove(out)
    text = """CONSTANTS
  Alphabet = {%s}
  MaxLen = %d
  OutFile = %s
  WithSnapshots = FALSE
SPECIFICATION Spec
INVARIANTS Tiling Monotone NonEmptyUnlessEof OneEof InBuffer DotModeSound DotIdentTotal Emit
CHECK_DEADLOCK FALSE
""" % (", ".join(str(x) for x in SIGMA24), cfg["gen_len"], common.tla_string(out))
    r = tlc_must_pass("LexGen", text, os.path.join(wd, "lexgen"), workers=min(16, common.NCPU), heap="12g", timeout=3000)
    chk.add_states(r)
    # design check with snapshots (Clone/Restore) on a smaller alphabet
    text2 = """CONSTANTS
  Alphabet = {97, 39, 92, 10, 59, 32, 46, 49, 47, 42, 41}
  MaxLen = 3
  OutFile = ""
  WithSnapshots = TRUE
SPECIFICATION Spec
INVARIANTS Tiling Monotone NonEmptyUnlessEof OneEof InBuffer DotModeSound SnapshotsSound
CHECK_DEADLOCK FALSE
"""
    r2 = tlc_must_pass("LexGen", text2, os.path.join(wd, "lexgen2"), workers=8, heap="6g", timeout=1200, name="LexGenSnap")
    chk.add_states(r2)
    res = harness_json(["lexreplay", "-in", out, "-mism", os.path.join(wd, "lexgen.mism")])
    chk.notes["spec_behaviours_replayed"] = res["behaviours"]
    mism = []
    mp = os.path.join(wd, "lexgen.mism")
    if os.path.exists(mp):
        for l in open(mp):
            mism.append(json.loads(l))
    os.remove(out)
    return res["behaviours"], mism


def run(prop, tier):
    level = "model_checking"
    chk = Check(prop, tier, level)
    wd = workdir("%s-%s" % (prop, tier))
    sets = record(tier, wd)
    total = 0
    rejected = {}
    exhaustive = True
    for (name, pre, chunks, exh, n) in sets:
        if isinstance(pre, tuple):      # recorded only now, validated, deleted: keeps the disk footprint to one batch
            _, c, ln = pre
            pre = os.path.join(wd, "sigma5-%d" % c)
            n = harness_json(["lexrec", "-alpha", alpha(SIGMA24), "-min", ln, "-max", ln, "-prefix", str(c), "-chunks", chunks, "-out", pre])["records"]
        cnt, rejects, states, trans = validate_chunks("LexTrace", [], pre, chunks, os.path.join(wd, "v-" + os.path.basename(pre)), maxpar=16, heap="3g")
        total += cnt
        chk.cov["states"] += states
        chk.cov["transitions"] += trans
        chk.notes.setdefault("domains", {})[name] = cnt
        for (k, line, tag) in rejects:
            if tag == prop:
                rec = read_record(pre, k, line)
                rejected[tuple(rec["buf"])] = rec
        # samples
        if len(chk.cov["samples"]) < 6 and n:
            rec = read_record(pre, 0, min(n, 7) if n else 1)
            chk.sample({"input": latin(rec["buf"]), "tokens": [[t["k"], t["p"], t["e"]] for t in rec["toks"]], "err": rec["err"]})
        for k in range(chunks):
            os.remove("%s.%d.ndjson" % (pre, k)) if not rejects else None
        import shutil
        shutil.rmtree(os.path.join(wd, "v-" + os.path.basename(pre)), ignore_errors=True)
    chk.cov["traces_validated_against_impl"] = total
    chk.cov["evaluations"] = total
    chk.cov["distinct_nontrivial"] = total - 1
    chk.cov["rule"] = ("every byte string up to the stated length over SIGMA24 and five sub-alphabets (exhaustive), plus keyword casings, "
                       "a literal prefix x quote x escape matrix and seed-random strings; each input is one recorded NextToken loop validated by TLC "
                       "against LexTrace.tla; all inputs are distinct, non-trivial = non-empty input")
    chk.cov["exhaustive"] = True
    # spec -> code
    nb, mism = gen_replay(chk, tier, wd)
    chk.cov["evaluations"] += nb
    for m in mism:
        rejected.setdefault(tuple(m["buf"]), m)
    # confirm in a fresh process, then report
    still = confirm(prop, list(rejected.keys())[:2000], wd)
    for b, rec in rejected.items():
        if b in still or (len(rejected) > 2000):
            chk.violation({"input": latin(b), "kind": "lexer-" + prop, "detail": "real lexer stream %s" % json.dumps(rec.get("toks", rec))[:300],
                           "replay": {"family": "lexer", "property": prop, "buf": list(b)}})
    if prop == "C14":
        # the lexer inside the parser: every token fetch of the fault corpus (dot mode across look-ahead restores,
        # recovery mode) is compared with the reference lexer in context by ParserTrace.tla (tag LEX)
        import fam_parser
        fam_parser.run_into(chk, "C14", tier, os.path.join(wd, "incontext"), faults_only=True)
    chk.assumptions += ["LexerCore.tla is the reference (written from the GoogleSQL lexical-structure documentation)",
                       "non-ASCII white space is compared only for the code points listed in WsLen; byte 0x08 is not driven",
                       "TLC's Json/CSV community modules read and write the trace files faithfully"]
    return chk.finish()


def replay(case):
    rp = case["replay"]
    wd = workdir("replay-lexer")
    still = confirm(rp["property"], [tuple(rp["buf"])], wd)
    return "input %r rejected by LexTrace (%s)" % (latin(rp["buf"]), rp["property"]) if still else None
