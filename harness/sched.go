package main

import (
	"crypto/sha1"
	"encoding/hex"
	"encoding/json"
	"flag"
	"fmt"
	"os"
	"reflect"
	"strings"
	"sync"
	"time"

	"github.com/cloudspannerecosystem/memefish"
	"github.com/cloudspannerecosystem/memefish/ast"
	"github.com/cloudspannerecosystem/memefish/token"
)

// C18: histories of calls (sequential orders and TLC-generated schedules of concurrent calls) with
// argument and result digests; PureTrace.tla checks that the result is a function of the arguments.

type pureCall struct {
	Args   string `json:"args"`
	Res    string `json:"res"`
	Shared bool   `json:"shared"`
	Entry  string `json:"entry"`
	Input  string `json:"input"`
}
type pureHist struct {
	Kind  string     `json:"kind"`
	Sched []int      `json:"sched"`
	Calls []pureCall `json:"calls"`
}

type callSpec struct{ Entry, Input string }

func sha(s string) string {
	h := sha1.Sum([]byte(s))
	return hex.EncodeToString(h[:8])
}

// resultDigest: everything the call returned.
func resultDigest(nodes []ast.Node, err error) string {
	var b strings.Builder
	for _, n := range nodes {
		if n == nil {
			b.WriteString("nil|")
			continue
		}
		b.WriteString(digest(n, true))
		b.WriteByte('|')
		sql, pan := safeSQL(n)
		b.WriteString(sql + pan + "|")
	}
	if err != nil {
		fmt.Fprintf(&b, "%T:", err)
		if me, ok := err.(memefish.MultiError); ok {
			for _, e := range me {
				b.WriteString(e.Error() + "#")
			}
		} else {
			b.WriteString(err.Error())
		}
	}
	return sha(b.String())
}

func nodePointers(nodes []ast.Node, into map[uintptr]bool) (shared bool) {
	for _, r := range nodes {
		if r == nil {
			continue
		}
		eachNode(r, 0, func(n ast.Node, _ int) {
			p := reflect.ValueOf(n).Pointer()
			if into[p] {
				shared = true
			}
		})
	}
	for _, r := range nodes {
		if r == nil {
			continue
		}
		eachNode(r, 0, func(n ast.Node, _ int) { into[reflect.ValueOf(n).Pointer()] = true })
	}
	return
}

// runCall uses the package-level helpers (memefish.ParseX(filepath, s)), as a user would.
func runCall(c callSpec) (nodes []ast.Node, err error) {
	defer func() {
		if r := recover(); r != nil {
			err = fmt.Errorf("panic: %v", r)
		}
	}()
	add := func(n ast.Node) { nodes = append(nodes, wrap(n)) }
	switch c.Entry {
	case "ParseStatement":
		n, e := memefish.ParseStatement("f", c.Input)
		add(n)
		err = e
	case "ParseStatements":
		ns, e := memefish.ParseStatements("f", c.Input)
		for _, n := range ns {
			add(n)
		}
		err = e
	case "ParseQuery":
		n, e := memefish.ParseQuery("f", c.Input)
		if n != nil {
			add(n)
		}
		err = e
	case "ParseExpr":
		n, e := memefish.ParseExpr("f", c.Input)
		add(n)
		err = e
	case "ParseType":
		n, e := memefish.ParseType("f", c.Input)
		add(n)
		err = e
	case "ParseDDL":
		n, e := memefish.ParseDDL("f", c.Input)
		add(n)
		err = e
	case "ParseDML":
		n, e := memefish.ParseDML("f", c.Input)
		add(n)
		err = e
	case "Split":
		ps, e := memefish.SplitRawStatements("f", c.Input)
		err = e
		var b strings.Builder
		for _, p := range ps {
			fmt.Fprintf(&b, "%d-%d:%s;", p.Pos, p.End, p.Statement)
		}
		if e == nil {
			err = fmt.Errorf("ok:%s", b.String()) // folded into the digest through the error text
		}
	}
	return
}

func entryForDir(dir string) string {
	switch dir {
	case "ddl":
		return "ParseDDL"
	case "dml":
		return "ParseDML"
	case "query":
		return "ParseQuery"
	case "expr":
		return "ParseExpr"
	case "type":
		return "ParseType"
	}
	return "ParseStatement"
}

// ---- scheduler gate -------------------------------------------------------------------------------

type gate struct {
	mu      sync.Mutex
	byFile  map[*token.File]int
	grants  []chan struct{}
	arrived chan int
	free    bool
}

func (g *gate) sink(ev *memefish.VerifEvent) {
	if ev.Ev != "TokBegin" {
		return
	}
	g.mu.Lock()
	w, ok := g.byFile[ev.File]
	free := g.free
	g.mu.Unlock()
	if !ok || free {
		return
	}
	g.arrived <- w
	<-g.grants[w]
}

// The package-level helpers create the File themselves, so a worker cannot register it beforehand:
// workers therefore build their Parser by hand (same code path as parse_helpers.go) for gated runs.
func gatedCall(g *gate, w int, c callSpec) (nodes []ast.Node, err error) {
	defer func() {
		if r := recover(); r != nil {
			err = fmt.Errorf("panic: %v", r)
		}
	}()
	file := &token.File{FilePath: "f", Buffer: c.Input}
	g.mu.Lock()
	g.byFile[file] = w
	g.mu.Unlock()
	p := &memefish.Parser{Lexer: &memefish.Lexer{File: file}}
	ns, e := callEntry(p, c.Entry)
	return ns, e
}

func runSchedule(calls []callSpec, sched []int) pureHist {
	k := len(calls)
	g := &gate{byFile: map[*token.File]int{}, arrived: make(chan int, k)}
	for i := 0; i < k; i++ {
		g.grants = append(g.grants, make(chan struct{}))
	}
	memefish.VerifSink = g.sink
	results := make([]pureCall, k)
	allNodes := make([][]ast.Node, k)
	var wg sync.WaitGroup
	done := make([]chan struct{}, k)
	for i := 0; i < k; i++ {
		done[i] = make(chan struct{})
		wg.Add(1)
		go func(i int) {
			defer wg.Done()
			defer close(done[i])
			ns, err := gatedCall(g, i, calls[i])
			allNodes[i] = ns
			results[i] = pureCall{Args: sha(calls[i].Entry + "\x00" + calls[i].Input), Res: resultDigest(ns, err), Entry: calls[i].Entry, Input: calls[i].Input}
		}(i)
	}
	// scheduler: follow the schedule; a worker that has finished is skipped
	waiting := map[int]bool{}
	finished := map[int]bool{}
	waitFor := func(w int) bool { // until worker w is at a gate or has finished
		for !waiting[w] && !finished[w] {
			select {
			case x := <-g.arrived:
				waiting[x] = true
			case <-done[w]:
				finished[w] = true
			case <-time.After(20 * time.Second):
				return false
			}
		}
		return true
	}
	for _, s := range sched {
		w := s - 1
		if w < 0 || w >= k || !waitFor(w) {
			continue
		}
		if waiting[w] {
			waiting[w] = false
			g.grants[w] <- struct{}{}
		}
	}
	// schedule exhausted: everybody runs freely
	g.mu.Lock()
	g.free = true
	g.mu.Unlock()
	for w := 0; w < k; w++ {
		go func(w int) {
			for {
				select {
				case g.grants[w] <- struct{}{}:
				case <-done[w]:
					return
				}
			}
		}(w)
	}
	go func() {
		for range g.arrived {
		}
	}()
	wg.Wait()
	ptrs := map[uintptr]bool{}
	for i := range results {
		results[i].Shared = nodePointers(allNodes[i], ptrs)
	}
	return pureHist{Kind: "schedule", Sched: sched, Calls: results}
}

func init() {
	register("sched", "C18 histories: sequential orders and TLC schedules of concurrent calls", func(args []string) error {
		fs := flag.NewFlagSet("sched", flag.ExitOnError)
		pool := fs.String("pool", "", "inputs {dir,buf|text} (NDJSON)")
		scheds := fs.String("scheds", "", "Sched.tla output (one schedule per line); empty = sequential phase")
		tuple := fs.Int("tuple", 0, "which K-tuple of the pool the workers parse")
		k := fs.Int("k", 2, "workers")
		out := fs.String("out", "", "history file")
		maxp := fs.Int("pairs", 40, "sequential phase: number of pool entries used for ordered pairs")
		stressN := fs.Int("stress", 0, "N > 0: for every call of the pool, N goroutines released together parse a long statement list made of copies of its input")
		freeN := fs.Int("freepool", 0, "N > 0: N ungated goroutines each run every call of the pool (rotated), one history per call")
		fs.Parse(args)
		var calls []callSpec
		src := inputSource{infile: *pool}
		if _, err := src.each(func(in string) {
			e := entryForDir(src.curDir)
			calls = append(calls, callSpec{e, in})
		}); err != nil {
			return err
		}
		of, err := os.Create(*out)
		if err != nil {
			return err
		}
		defer of.Close()
		enc := json.NewEncoder(of)
		enc.SetEscapeHTML(false)
		n := 0
		if *stressN > 0 {
			// stress phase.  The error paths and the digests go through fmt (a sync.Pool: a happens-before edge between
			// the workers at every use), which orders short calls and hides unsynchronised accesses from the race
			// detector.  Here the workers spend a long stretch inside one call without any such edge: a list of many
			// copies of the input, started together; round 1 all workers on the same input, round 2 on neighbours.
			long := make([]string, len(calls))
			for k, c := range calls {
				var unit string
				switch c.Entry {
				case "ParseExpr":
					unit = "SELECT " + c.Input + "\n;\n"
				case "ParseType":
					unit = "SELECT CAST(NULL AS " + c.Input + "\n)\n;\n"
				default:
					unit = c.Input + "\n;\n"
				}
				reps := 1 + 12000/len(unit)
				if reps > 300 {
					reps = 300
				}
				long[k] = strings.Repeat(unit, reps)
			}
			for round := 0; round < 2; round++ {
				for k := range calls {
					var wg sync.WaitGroup
					start := make(chan struct{})
					res := make([]pureCall, *stressN)
					for w := 0; w < *stressN; w++ {
						wg.Add(1)
						go func(w int) {
							defer wg.Done()
							in := long[(k+w*round)%len(calls)]
							<-start
							ns, err := runCall(callSpec{"ParseStatements", in})
							res[w] = pureCall{Args: sha(in), Res: resultDigest(ns, err), Entry: "ParseStatements", Input: in[:min(len(in), 200)]}
						}(w)
					}
					close(start)
					wg.Wait()
					if err := enc.Encode(pureHist{Kind: "stress", Sched: []int{}, Calls: res}); err != nil {
						return err
					}
					n++
				}
			}
			fmt.Printf("{\"histories\": %d}\n", n)
			return nil
		}
		if *freeN > 0 {
			// whole-pool phase: no synchronisation between the workers from the start barrier to the end, so that the
			// race detector sees every pair of accesses to package-level state that any two calls of the pool make;
			// each call is made once by every worker: its N results form one history
			res := make([][]string, *freeN)
			var wg sync.WaitGroup
			start := make(chan struct{})
			for w := 0; w < *freeN; w++ {
				res[w] = make([]string, len(calls))
				wg.Add(1)
				go func(w int) {
					defer wg.Done()
					<-start
					off := w * len(calls) / *freeN
					for i := range calls {
						k := (i + off) % len(calls)
						if w%2 == 1 {
							k = (len(calls) - 1 - i + off) % len(calls)
						}
						ns, err := runCall(calls[k])
						res[w][k] = resultDigest(ns, err)
					}
				}(w)
			}
			close(start)
			wg.Wait()
			for k, c := range calls {
				h := pureHist{Kind: "pool", Sched: []int{}}
				a := sha(c.Entry + "\x00" + c.Input)
				for w := 0; w < *freeN; w++ {
					h.Calls = append(h.Calls, pureCall{Args: a, Res: res[w][k], Entry: c.Entry, Input: c.Input})
				}
				if err := enc.Encode(h); err != nil {
					return err
				}
				n++
			}
			fmt.Printf("{\"histories\": %d}\n", n)
			return nil
		}
		if *scheds == "" {
			// sequential phase: a baseline pass, then ordered pairs and repeats in the same process.  Every
			// later call is written as a two-call history [first result for these arguments, this result],
			// and at the end every kept result is digested again (a returned AST shares no state with later parses).
			ptrs := map[uintptr]bool{}
			first := map[string]pureCall{}
			type kept struct {
				c     callSpec
				nodes []ast.Node
				err   error
			}
			var keep []kept
			var retain [][]ast.Node
			defer func() { _ = len(retain) }()
			do := func(c callSpec) error {
				ns, err := runCall(c)
				pc := pureCall{Args: sha(c.Entry + "\x00" + c.Input), Res: resultDigest(ns, err), Entry: c.Entry, Input: c.Input}
				pc.Shared = nodePointers(ns, ptrs)
				retain = append(retain, ns) // keep every result alive: a freed node's address may be reused
				if len(keep) < 600 {
					keep = append(keep, kept{c, ns, err})
				}
				n++
				f, seen := first[pc.Args]
				if !seen {
					first[pc.Args] = pc
					f = pc
				}
				return enc.Encode(pureHist{Kind: "sequential", Sched: []int{}, Calls: []pureCall{f, pc}})
			}
			for _, c := range calls {
				if err := do(c); err != nil {
					return err
				}
				do(callSpec{"Split", c.Input})
			}
			m := *maxp
			if m > len(calls) {
				m = len(calls)
			}
			for i := 0; i < m; i++ {
				for j := 0; j < m; j++ {
					do(calls[(i*7)%len(calls)])
					do(calls[(j*11+3)%len(calls)])
				}
			}
			// state keyed by something weaker than the arguments (same file name, same length): a twin of the input with
			// one blank turned into a newline has the same length and another line structure; twin and input alternate
			// with an unrelated call in between, so a stale line table or cached result shows as a changed result
			for i, c := range calls {
				if i >= 150 {
					break
				}
				k := strings.IndexByte(c.Input, ' ')
				if k < 0 {
					continue
				}
				twin := callSpec{c.Entry, c.Input[:k] + "\n" + c.Input[k+1:]}
				do(twin)
				do(c)
				do(callSpec{"ParseType", "INT64."})
				do(c)
				do(twin)
			}
			for _, kp := range keep {
				args := sha(kp.c.Entry + "\x00" + kp.c.Input)
				again := pureCall{Args: args, Res: resultDigest(kp.nodes, kp.err), Entry: kp.c.Entry, Input: kp.c.Input}
				enc.Encode(pureHist{Kind: "kept", Sched: []int{}, Calls: []pureCall{first[args], again}})
				n++
			}
			fmt.Printf("{\"histories\": %d}\n", n)
			return nil
		}
		// concurrent phase: the K calls of this tuple under every schedule
		var mine []callSpec
		for i := 0; i < *k; i++ {
			mine = append(mine, calls[(*tuple**k+i*13)%len(calls)])
		}
		// FIRST, in this fresh process: the calls through the package-level helpers, concurrently and ungated,
		// released together by a start barrier (first-use initialisation happens under concurrency; the
		// scheduler gate used below synchronises the workers and would hide a race from the detector)
		free := append(append([]callSpec{}, mine...), callSpec{"ParseExpr", "CAST(a AS ARRAY<STRUCT<x INT64, y STRING>>)"}, callSpec{"ParseType", "STRUCT<a ARRAY<DATE>, b my.Proto>"},
			callSpec{"ParseDDL", "CREATE TABLE t (a INT64, b STRING(MAX)) PRIMARY KEY (a)"}, callSpec{"ParseQuery", "SELECT a.b.c, `x`.all FROM t"})
		for round := 0; round < 20; round++ {
			var wg sync.WaitGroup
			start := make(chan struct{})
			res := make([]pureCall, len(free)*2)
			for i := range res {
				wg.Add(1)
				go func(i int) {
					defer wg.Done()
					<-start
					c := free[i%len(free)]
					ns, err := runCall(c)
					res[i] = pureCall{Args: sha(c.Entry + "\x00" + c.Input), Res: resultDigest(ns, err), Entry: c.Entry, Input: c.Input}
				}(i)
			}
			close(start)
			wg.Wait()
			enc.Encode(pureHist{Kind: "free", Sched: []int{}, Calls: res})
			n++
		}
		_, err = readTLCLines(*scheds, func(raw []byte) error {
			var s []int
			if err := json.Unmarshal(raw, &s); err != nil {
				return err
			}
			h := runSchedule(mine, s)
			// the same calls, sequentially, in the same history: the memo must agree
			for _, c := range mine {
				ns, err := runCall(c)
				h.Calls = append(h.Calls, pureCall{Args: sha(c.Entry + "\x00" + c.Input), Res: resultDigest(ns, err), Entry: c.Entry, Input: c.Input})
			}
			n++
			return enc.Encode(h)
		})
		if err != nil {
			return err
		}
		fmt.Printf("{\"histories\": %d}\n", n)
		return nil
	})
}
