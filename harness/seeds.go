package main

import (
	"bufio"
	"encoding/json"
	"flag"
	"fmt"
	"os"

	"github.com/cloudspannerecosystem/memefish"
	"github.com/cloudspannerecosystem/memefish/token"
)

type seedRec struct {
	Dir  string  `json:"dir"`
	Name string  `json:"name"`
	Toks [][]int `json:"toks"`
}

func init() {
	register("seeds", "turn a corpus {dir,name,text} into token-list seeds for Faults.tla", func(args []string) error {
		fs := flag.NewFlagSet("seeds", flag.ExitOnError)
		in := fs.String("in", "", "corpus ndjson")
		out := fs.String("out", "", "seed ndjson")
		fs.Parse(args)
		fh, err := os.Open(*in)
		if err != nil {
			return err
		}
		defer fh.Close()
		of, err := os.Create(*out)
		if err != nil {
			return err
		}
		defer of.Close()
		w := bufio.NewWriter(of)
		defer w.Flush()
		sc := bufio.NewScanner(fh)
		sc.Buffer(make([]byte, 1<<20), 1<<26)
		n := 0
		for sc.Scan() {
			var c struct{ Dir, Name, Text string }
			if err := json.Unmarshal(sc.Bytes(), &c); err != nil {
				return err
			}
			lex := &memefish.Lexer{File: &token.File{Buffer: c.Text}}
			rec := seedRec{Dir: c.Dir, Name: c.Name, Toks: [][]int{}}
			ok := true
			func() {
				defer func() {
					if recover() != nil {
						ok = false
					}
				}()
				for {
					if err := lex.NextToken(); err != nil {
						ok = false
						return
					}
					if lex.Token.Kind == token.TokenEOF {
						return
					}
					rec.Toks = append(rec.Toks, ints(lex.Token.Raw))
				}
			}()
			if !ok || len(rec.Toks) == 0 {
				continue
			}
			b, _ := json.Marshal(rec)
			w.Write(b)
			w.WriteByte('\n')
			n++
		}
		fmt.Printf("{\"seeds\": %d}\n", n)
		return sc.Err()
	})
}
