package main

import (
	"bufio"
	"encoding/json"
	"flag"
	"fmt"
	"os"
	"reflect"
	"strings"

	"github.com/cloudspannerecosystem/memefish"
	"github.com/cloudspannerecosystem/memefish/ast"
)

// finding is one discrepancy between what the specification expects (tape) and what the real
// code did, or between two observations of the real code that a property relates.
type finding struct {
	Prop    string `json:"prop"`
	Kind    string `json:"kind"`
	Start   string `json:"start"`
	Profile string `json:"profile"`
	Text    string `json:"text"`
	Detail  string `json:"detail"`
	Line    int    `json:"line"` // line of the tape in the input file
}

// obsNode / obsRec: observation records validated by TLC (ObserveTrace.tla, C05).
type obsRec struct {
	Buf   []int   `json:"buf"`
	Err   bool    `json:"err"`
	Nodes [][]any `json:"nodes"` // [kind, pos, end, parent (0 = none, 1-based), exemptOrder]
}

type gramStats struct {
	Sentences int            `json:"sentences"`
	Evals     map[string]int `json:"evals"`
	Findings  map[string]int `json:"findings"`
	Kinds     map[string]int `json:"kinds"`  // node kinds reached in accepted trees
	Starts    map[string]int `json:"starts"` // sentences per start symbol
	Fields    map[string]int `json:"fields"` // "Type.Field" set (non-zero) / "Type.Field=value" for enum and bool fields, in accepted trees
}

type gramRun struct {
	props     map[string]bool
	out       *bufio.Writer
	obs       *bufio.Writer
	walk      *bufio.Writer
	posl      *bufio.Writer
	stats     gramStats
	profiles  []profile
	line      int
	prevRoot  ast.Node
	prevC04   ast.Node
	seed      int64
	walkBasic bool
	walkSeen  map[[32]byte]bool
	prevText  string
}

func (g *gramRun) want(p string) bool { return g.props[p] }

func (g *gramRun) find(prop, kind string, s *sentence, pf, text, detail string) {
	if !g.want(prop) {
		return
	}
	if len(detail) > 600 {
		detail = detail[:600]
	}
	b, _ := json.Marshal(finding{prop, kind, s.Start, pf, text, detail, g.line})
	g.out.Write(b)
	g.out.WriteByte('\n')
	g.stats.Findings[prop]++
}

func (g *gramRun) eval(p string) { g.stats.Evals[p]++ }

// fieldCover records which fields of a node carry a non-zero value and which values the enum / bool fields take
// (coverage of G over the AST's optional parts; reported in the evidence, decides nothing).
func (g *gramRun) fieldCover(n ast.Node) {
	v := reflect.ValueOf(n)
	if v.Kind() != reflect.Ptr || v.IsNil() {
		return
	}
	v = v.Elem()
	if v.Kind() != reflect.Struct {
		return
	}
	t := v.Type()
	for i := 0; i < t.NumField(); i++ {
		f := v.Field(i)
		name := t.Name() + "." + t.Field(i).Name
		switch f.Kind() {
		case reflect.Bool:
			g.stats.Fields[fmt.Sprintf("%s=%v", name, f.Bool())]++
		case reflect.String:
			if f.Type().PkgPath() != "" { // named string type: an enum
				g.stats.Fields[name+"="+f.String()]++
			} else if f.String() != "" {
				g.stats.Fields[name]++
			}
		case reflect.Ptr, reflect.Interface:
			if !f.IsNil() {
				g.stats.Fields[name]++
			}
		case reflect.Slice:
			switch {
			case f.Len() == 0:
			case f.Len() == 1:
				g.stats.Fields[name]++
			default:
				g.stats.Fields[name]++
				g.stats.Fields[name+"[2+]"]++
			}
		case reflect.Int:
			if f.Type().Name() == "Pos" {
				if f.Int() >= 0 {
					g.stats.Fields[name]++
				} else {
					g.stats.Fields[name+"=invalid"]++
				}
			}
		}
	}
}

// exprPosition tells whether the field holding c is an expression / type / query / statement position.
var (
	exprIface  = reflect.TypeOf((*ast.Expr)(nil)).Elem()
	typeIface  = reflect.TypeOf((*ast.Type)(nil)).Elem()
	queryIface = reflect.TypeOf((*ast.QueryExpr)(nil)).Elem()
	stmtIface  = reflect.TypeOf((*ast.Statement)(nil)).Elem()
)

func positionClass(parent ast.Node, field string) string {
	t := reflect.TypeOf(parent).Elem()
	f, ok := t.FieldByName(field)
	if !ok {
		return ""
	}
	ft := f.Type
	if ft.Kind() == reflect.Slice {
		ft = ft.Elem()
	}
	switch ft {
	case exprIface:
		return "expr"
	case typeIface:
		return "type"
	case queryIface:
		return "query"
	case stmtIface:
		return "stmt"
	}
	return ""
}

func parseAs(class, text string) (ast.Node, error, string) {
	switch class {
	case "expr":
		return safeCall(epExpr, text)
	case "type":
		return safeCall(epType, text)
	case "query":
		n, err, pan := safeCall(epQuery, text)
		if qs, ok := n.(*ast.QueryStatement); ok && qs != nil {
			return wrap(qs.Query), err, pan
		}
		return n, err, pan
	case "stmt":
		return safeCall(epStmt, text)
	}
	return nil, fmt.Errorf("no entry"), ""
}

func rootClass(start string) string {
	switch {
	case (strings.HasPrefix(start, "E") && len(start) <= 3) || strings.HasPrefix(start, "FE_"):
		return "expr"
	case start == "Type":
		return "type"
	}
	return "stmt"
}

func (g *gramRun) sentence(s *sentence) {
	g.stats.Sentences++
	g.stats.Starts[s.Start]++
	spec, general := entriesFor(s.Start)
	plain := g.profiles[0]
	text0, starts0, ends0 := render(s.Toks, false, plain)

	n0, err0, pan0 := safeCall(spec, text0)
	g.eval("C08")
	if pan0 != "" {
		g.find("C08", "panic", s, plain.Name, text0, spec.Name+" panicked: "+pan0)
		g.find("C03", "panic", s, plain.Name, text0, spec.Name+" panicked: "+pan0)
		return
	}
	if err0 != nil || n0 == nil {
		g.find("C08", "reject", s, plain.Name, text0, fmt.Sprintf("%s: %v", spec.Name, err0))
		if g.want("C16") {
			// the same tokens in another trivia/case spelling are accepted: then the spelling changed the outcome
			for _, pf := range g.profiles[1:] {
				text, _, _ := render(s.Toks, false, pf)
				if n, err, pan := safeCall(spec, text); pan == "" && err == nil && n != nil {
					g.eval("C16")
					g.find("C16", "reject", s, plain.Name, text0, fmt.Sprintf("rejected (%v) although the %s rendering %q is accepted", err0, pf.Name, text))
					break
				}
			}
		}
		return
	}
	eachNode(n0, 0, func(n ast.Node, _ int) { g.stats.Kinds[kindOf(n)]++; g.fieldCover(n) })
	if general != nil && g.want("C08") {
		n1, err1, pan1 := safeCall(*general, text0)
		switch {
		case pan1 != "":
			g.find("C08", "panic", s, plain.Name, text0, general.Name+" panicked: "+pan1)
		case err1 != nil || n1 == nil:
			g.find("C08", "reject-general", s, plain.Name, text0, fmt.Sprintf("%s: %v", general.Name, err1))
		case digest(n1, true) != digest(n0, true):
			g.find("C08", "entry-disagree", s, plain.Name, text0, spec.Name+" and "+general.Name+" return different trees")
		}
	}
	d0 := digest(n0, false)

	// ---- C08, list clause: the list entry points accept the sentence twice, ';'-separated, with and without a trailing ';'
	if general != nil && g.want("C08") {
		g.listClause(s, text0, d0)
	}

	// ---- shape (C07 for expression sentences; otherwise a model deviation) and spans (C06) -----
	var xs, rs strings.Builder
	shapeExpected(s.Root, &xs)
	shapeReal(n0, &rs, 0)
	shapeOK := xs.String() == rs.String()
	g.eval("C07")
	if !shapeOK {
		prop := "MODEL"
		if rootClass(s.Start) == "expr" {
			prop = "C07"
		}
		g.find(prop, "shape", s, plain.Name, text0, "expected "+xs.String()+" got "+rs.String())
		if prop == "MODEL" {
			g.stats.Findings["MODEL"]++
		}
	}
	checkSpans := func(pf profile, text string, starts, ends []int, n ast.Node) {
		if !shapeOK || !g.want("C06") {
			return
		}
		g.eval("C06")
		var we, re []string
		spansExpected(s.Root, starts, ends, &we)
		spansReal(n, &re)
		if sortedJoin(we) != sortedJoin(re) {
			g.find("C06", "span", s, pf.Name, text, "expected "+diffSpans(we, re))
		}
	}
	checkSpans(plain, text0, starts0, ends0, n0)
	// the same sentence at a non-zero offset (second statement of a list / inside parentheses / as an array element
	// type): every position of the tree moves by the length of what precedes it
	if g.want("C06") && shapeOK {
		if pre, n := offsetContext(s.Start, text0); n != nil {
			st, en := make([]int, len(starts0)), make([]int, len(ends0))
			for i := range starts0 {
				st[i], en[i] = starts0[i]+len(pre), ends0[i]+len(pre)
			}
			checkSpans(profile{Name: "offset"}, pre+text0, st, en, n)
		}
	}

	// ---- C04: SQL/Pos/End on every node, traversals (also pairs of trees for the *Many variants) -----
	if g.want("C04") {
		g.eval("C04")
		var ret pRet
		exercise([]ast.Node{n0}, &ret)
		if g.prevC04 != nil {
			exerciseMany([]ast.Node{g.prevC04, n0}, &ret)
		}
		g.prevC04 = n0
		for _, f := range ret.Fails {
			g.find("C04", "method-panic", s, plain.Name, text0, fmt.Sprintf("%s.%s: %s", f.Kind, f.Method, f.Msg))
		}
	}

	// ---- unparse: C04 totality, C02 lossless, C01 round trip ------------------------------------
	sql1, panS := safeSQL(n0)
	roundTrip := false // premise of C06: the sentence's own round trip holds
	if panS == "" {
		if n2, err2, pan2 := safeCall(spec, sql1); pan2 == "" && err2 == nil && n2 != nil && digest(n2, false) == d0 {
			roundTrip = true
		}
	}
	if panS != "" {
		g.find("C04", "sql-panic", s, plain.Name, text0, panS)
		g.find("C01", "sql-panic", s, plain.Name, text0, panS)
	} else {
		if g.want("C02") || g.want("C07") {
			g.eval("C02")
			ctext, _, _ := render(s.Toks, true, plain)
			a, okA := lexSig(ctext)
			b, okB := lexSig(sql1)
			var classes []string
			for _, t := range s.Toks {
				if t.Canon {
					classes = append(classes, t.C)
					if t.S == ">>" || t.S == "<>" {
						classes = append(classes, t.C) // compared as two halves, see lexSig
					}
				}
			}
			bad := ""
			switch {
			case !okA:
				bad = "canonical input does not lex: " + ctext
			case !okB:
				bad = "SQL() does not lex"
			case len(a) != len(classes):
				bad = fmt.Sprintf("tape token count %d != lexed %d", len(classes), len(a))
			case len(a) != len(b):
				bad = fmt.Sprintf("%d tokens in, %d tokens out", len(a), len(b))
			default:
				for i := range a {
					if !sameToken(classes[i], a[i], b[i]) {
						bad = fmt.Sprintf("token %d: %q (%s) became %q", i, a[i].Raw, classes[i], b[i].Raw)
						break
					}
				}
			}
			if bad != "" {
				p := "C02"
				if strings.HasPrefix(bad, "canonical input") || strings.HasPrefix(bad, "tape token") {
					p = "MODEL"
				}
				g.find(p, "tokens", s, plain.Name, text0, bad+" | SQL: "+sql1)
				if rootClass(s.Start) == "expr" && p == "C02" {
					g.find("C07", "parens", s, plain.Name, text0, bad+" | SQL: "+sql1)
				}
			}
		}
		if g.want("C01") {
			g.eval("C01")
			n2, err2, pan2 := safeCall(spec, sql1)
			switch {
			case pan2 != "":
				g.find("C01", "reparse-panic", s, plain.Name, text0, "SQL: "+sql1+" : "+pan2)
			case err2 != nil || n2 == nil:
				g.find("C01", "reparse-error", s, plain.Name, text0, fmt.Sprintf("SQL: %s : %v", sql1, err2))
			default:
				if digest(n2, false) != d0 {
					g.find("C01", "tree", s, plain.Name, text0, "SQL: "+sql1)
				} else if sql2, p2 := safeSQL(n2); p2 != "" || sql2 != sql1 {
					g.find("C01", "fixed-point", s, plain.Name, text0, "SQL: "+sql1+" then: "+sql2+p2)
				}
			}
		}
	}

	// ---- C05 observation record (TLC decides) ----------------------------------------------------
	if g.want("C05") && g.obs != nil {
		g.eval("C05")
		g.writeObs(text0, n0)
	}
	if (g.want("C17") || g.want("C19")) && g.walk != nil {
		g.eval("C17")
		g.writeWalk(n0, text0)
	}
	if g.want("C19") && g.posl != nil {
		g.eval("C19")
		g.writePosl(n0)
	}

	// ---- C16 / C06 / C05 on the other render profiles ---------------------------------------------
	if g.want("C16") || g.want("C06") || g.want("C05") || g.want("C08") {
		for _, pf := range g.profiles[1:] {
			text, starts, ends := render(s.Toks, false, pf)
			n, err, pan := safeCall(spec, text)
			g.eval("C16")
			switch {
			case pan != "":
				g.find("C16", "panic", s, pf.Name, text, pan)
			case err != nil || n == nil:
				g.find("C16", "reject", s, pf.Name, text, fmt.Sprint(err))
				g.find("C08", "reject", s, pf.Name, text, spec.Name+": "+fmt.Sprint(err)) // G's sentences in the other keyword case
			default:
				if digest(n, false) != d0 {
					g.find("C16", "tree", s, pf.Name, text, "differs from the plain rendering: "+text0)
				}
				checkSpans(pf, text, starts, ends, n)
				if g.want("C05") && g.obs != nil {
					g.writeObs(text, n)
				}
			}
		}
	}

	// ---- C06 (a) stand-alone re-parse of the slice, (b) splice of SQL() ----------------------------
	if g.want("C06") && roundTrip {
		g.sliceChecks(s, text0, n0, d0, spec)
	}
}

// listClause: ParseStatements (and ParseDDLs / ParseDMLs for DDL / DML sentences) on "s ; s" and "s ; s ;".
func (g *gramRun) listClause(s *sentence, text, d0 string) {
	type listFn struct {
		name string
		call func(string) ([]ast.Node, error)
	}
	fns := []listFn{{"ParseStatements", func(x string) ([]ast.Node, error) {
		ns, err := memefish.ParseStatements("", x)
		return wrapNodes(ns), err
	}}}
	switch dirOf(s.Start) {
	case "ddl":
		fns = append(fns, listFn{"ParseDDLs", func(x string) ([]ast.Node, error) {
			ns, err := memefish.ParseDDLs("", x)
			return wrapNodes(ns), err
		}})
	case "dml":
		fns = append(fns, listFn{"ParseDMLs", func(x string) ([]ast.Node, error) {
			ns, err := memefish.ParseDMLs("", x)
			return wrapNodes(ns), err
		}})
	}
	for _, f := range fns {
		for _, in := range []string{text + " ; " + text, text + " ;\n" + text + " ;"} {
			var ns []ast.Node
			var err error
			ok, pan := safely(func() { ns, err = f.call(in) })
			switch {
			case !ok:
				g.find("C08", "list-panic", s, "plain", in, f.name+" panicked: "+pan)
			case err != nil:
				g.find("C08", "list-reject", s, "plain", in, fmt.Sprintf("%s: %v", f.name, err))
			case len(ns) != 2 || ns[0] == nil || ns[1] == nil || digest(ns[0], false) != d0 || digest(ns[1], false) != d0:
				g.find("C08", "list-tree", s, "plain", in, f.name+" does not return the sentence's tree twice")
			}
		}
	}
}

func wrapNodes[T ast.Node](ns []T) []ast.Node {
	out := make([]ast.Node, 0, len(ns))
	for _, n := range ns {
		out = append(out, wrap(n))
	}
	return out
}

// offsetContext parses text behind a prefix and returns the node that corresponds to the sentence's root.
func offsetContext(start, text string) (pre string, n ast.Node) {
	defer func() {
		if recover() != nil {
			n = nil
		}
	}()
	switch rootClass(start) {
	case "expr":
		pre = "( "
		e, err := memefish.ParseExpr("", pre+text+" )")
		if p, ok := e.(*ast.ParenExpr); ok && err == nil {
			return pre, p.Expr
		}
	case "type":
		pre = "ARRAY< "
		t, err := memefish.ParseType("", pre+text+" >")
		if a, ok := t.(*ast.ArrayType); ok && err == nil {
			return pre, a.Item
		}
	default:
		pre = "SELECT 1 ;\n"
		stmts, err := memefish.ParseStatements("", pre+text)
		if err == nil && len(stmts) == 2 {
			return pre, stmts[1]
		}
	}
	return pre, nil
}

func dirOf(start string) string {
	switch rootClass(start) {
	case "expr":
		return "expr"
	case "type":
		return "type"
	}
	switch {
	case start == "DDL" || strings.HasPrefix(start, "FD_"):
		return "ddl"
	case start == "DML" || strings.HasPrefix(start, "FM_"):
		return "dml"
	case start == "QueryStatement" || strings.HasPrefix(start, "QS_"):
		return "query"
	}
	return "statement"
}

func startOfDir(dir string) string {
	switch dir {
	case "expr":
		return "E12"
	case "type":
		return "Type"
	case "ddl":
		return "DDL"
	case "dml":
		return "DML"
	case "query":
		return "QueryStatement"
	}
	return "Statement"
}

// rawInput: an input that does not come with a tape (a mutant of a sentence).  If the real parser accepts
// it, the clauses that relate the real code to itself must hold for it as for every accepted input.
func (g *gramRun) rawInput(dir, text string) {
	s := &sentence{Start: startOfDir(dir)}
	spec, _ := entriesFor(s.Start)
	n0, err0, pan0 := safeCall(spec, text)
	g.stats.Sentences++
	if pan0 != "" || err0 != nil || n0 == nil {
		return // rejected or panicking inputs are the business of C03/C09/C10
	}
	g.stats.Starts["raw-accepted"]++
	pf := "raw"
	d0 := digest(n0, false)
	if g.want("C04") {
		g.eval("C04")
		var ret pRet
		exercise([]ast.Node{n0}, &ret)
		for _, f := range ret.Fails {
			g.find("C04", "method-panic", s, pf, text, fmt.Sprintf("%s.%s: %s", f.Kind, f.Method, f.Msg))
		}
	}
	sql1, panS := safeSQL(n0)
	roundTrip := false
	if panS != "" {
		g.find("C01", "sql-panic", s, pf, text, panS)
	} else {
		g.eval("C01")
		n2, err2, pan2 := safeCall(spec, sql1)
		switch {
		case pan2 != "":
			g.find("C01", "reparse-panic", s, pf, text, "SQL: "+sql1+" : "+pan2)
		case err2 != nil || n2 == nil:
			g.find("C01", "reparse-error", s, pf, text, fmt.Sprintf("SQL: %s : %v", sql1, err2))
		case digest(n2, false) != d0:
			g.find("C01", "tree", s, pf, text, "SQL: "+sql1)
		default:
			if sql2, p2 := safeSQL(n2); p2 != "" || sql2 != sql1 {
				g.find("C01", "fixed-point", s, pf, text, "SQL: "+sql1+" then: "+sql2+p2)
			} else {
				roundTrip = true
			}
		}
	}
	if g.want("C05") && g.obs != nil {
		g.eval("C05")
		g.writeObs(text, n0)
	}
	if (g.want("C17") || g.want("C19")) && g.walk != nil {
		g.eval("C17")
		g.writeWalk(n0, text)
	}
	if g.want("C19") && g.posl != nil {
		g.eval("C19")
		g.writePosl(n0)
	}
	if g.want("C06") && roundTrip {
		g.sliceChecks(s, text, n0, d0, spec)
	}
}

func diffSpans(we, re []string) string {
	ws := map[string]int{}
	for _, x := range we {
		ws[x]++
	}
	for _, x := range re {
		ws[x]--
	}
	var miss, extra []string
	for k, v := range ws {
		if v > 0 {
			miss = append(miss, k)
		} else if v < 0 {
			extra = append(extra, k)
		}
	}
	return fmt.Sprintf("missing %v, unexpected %v", miss, extra)
}

func (g *gramRun) sliceChecks(s *sentence, text string, root ast.Node, rootDigest string, spec entryFn) {
	type item struct {
		n     ast.Node
		class string
	}
	var items []item
	items = append(items, item{root, rootClass(s.Start)})
	var rec func(n ast.Node, depth int)
	rec = func(n ast.Node, depth int) {
		if depth > 2000 {
			return
		}
		for _, c := range children(n) {
			if c.Node == nil {
				continue
			}
			items = append(items, item{c.Node, positionClass(n, c.Field)})
			rec(c.Node, depth+1)
		}
	}
	rec(root, 0)
	for _, it := range items {
		pos, end := int(it.n.Pos()), int(it.n.End())
		if pos < 0 || end > len(text) || pos > end {
			continue // C05's business
		}
		if it.class != "" && it.class != "stmt" || it.n == root {
			// (a) the slice parses on its own to the same node
			g.eval("C06")
			cls := it.class
			slice := text[pos:end]
			n2, err, pan := parseAs(cls, slice)
			if cls == "stmt" && it.n == root {
				n2, err, pan = safeCall(spec, slice)
			}
			switch {
			case pan != "":
				g.find("C06", "slice-panic", s, "plain", text, fmt.Sprintf("%s [%d,%d) %q: %s", kindOf(it.n), pos, end, slice, pan))
			case err != nil || n2 == nil:
				g.find("C06", "slice-reject", s, "plain", text, fmt.Sprintf("%s [%d,%d) %q: %v", kindOf(it.n), pos, end, slice, err))
			case digest(n2, false) != digest(it.n, false):
				g.find("C06", "slice-tree", s, "plain", text, fmt.Sprintf("%s [%d,%d) %q parses to a different tree", kindOf(it.n), pos, end, slice))
			}
		}
		// (b) splice SQL() of the node into its range
		sql, pan := safeSQL(it.n)
		if pan != "" {
			continue
		}
		g.eval("C06")
		spliced := text[:pos] + " " + sql + " " + text[end:]
		n3, err, pan3 := safeCall(spec, spliced)
		switch {
		case pan3 != "":
			g.find("C06", "splice-panic", s, "plain", text, fmt.Sprintf("%s [%d,%d): %s", kindOf(it.n), pos, end, pan3))
		case err != nil || n3 == nil:
			g.find("C06", "splice-reject", s, "plain", text, fmt.Sprintf("%s [%d,%d) spliced %q: %v", kindOf(it.n), pos, end, spliced, err))
		case digest(n3, false) != rootDigest:
			g.find("C06", "splice-tree", s, "plain", text, fmt.Sprintf("%s [%d,%d) spliced %q parses to a different tree", kindOf(it.n), pos, end, spliced))
		}
	}
}

func (g *gramRun) writeObs(text string, root ast.Node) {
	rec := obsRec{Buf: ints(text)}
	index := map[ast.Node]int{}
	var walk func(n ast.Node, parent int, depth int)
	walk = func(n ast.Node, parent int, depth int) {
		if depth > 2000 {
			return
		}
		rec.Nodes = append(rec.Nodes, []any{kindOf(n), int(n.Pos()), int(n.End()), parent})
		me := len(rec.Nodes)
		index[n] = me
		for _, c := range children(n) {
			if c.Node != nil {
				walk(c.Node, me, depth+1)
			}
		}
	}
	walk(root, 0, 0)
	b, _ := json.Marshal(rec)
	g.obs.Write(b)
	g.obs.WriteByte('\n')
}

func init() {
	register("gram", "replay Grammar.tla tapes into the real parser / unparser (C01 C02 C05 C06 C07 C08 C16 C17 C19)", func(args []string) error {
		fs := flag.NewFlagSet("gram", flag.ExitOnError)
		in := fs.String("in", "", "tape file (NDJSON written by TLC)")
		out := fs.String("out", "", "findings file")
		obs := fs.String("obs", "", "C05 observation records for TLC")
		walk := fs.String("walk", "", "C17 traversal records for TLC")
		posl := fs.String("posl", "", "C19 position-expression records for TLC")
		props := fs.String("props", "C01,C02,C05,C06,C07,C08,C16", "properties to evaluate")
		nprof := fs.Int("profiles", 3, "number of render profiles (1 = plain only)")
		astfile := fs.String("astfile", "/repo/ast/ast.go", "ast.go (node documentation for C19)")
		seed := fs.Int64("seed", 1, "seed for prune sets")
		dump := fs.String("dump", "", "only render the tapes (plain profile) into a corpus file {dir,name,text}")
		maxToks := fs.Int("maxtoks", 40, "with -struct: longest sentence (tokens) written; nodes are limited to 1.5 x this")
		dumpStruct := fs.Bool("struct", false, "with -dump: write {dir, toks, nodes} (token spellings as bytes, node = [first, last, parent]) for TreeFaults.tla")
		raw := fs.String("raw", "", "inputs {dir,buf} without tapes: the real-vs-real clauses (C01 C04 C05 C06 C17 C19) on whatever is accepted")
		fs.Parse(args)
		g := &gramRun{props: map[string]bool{}, stats: gramStats{Evals: map[string]int{}, Findings: map[string]int{}, Kinds: map[string]int{}, Starts: map[string]int{}, Fields: map[string]int{}}}
		for _, p := range strings.Split(*props, ",") {
			g.props[strings.TrimSpace(p)] = true
		}
		g.props["MODEL"] = true
		g.seed = *seed
		g.walkBasic = !g.props["C17"]
		if *nprof > len(profiles) {
			*nprof = len(profiles)
		}
		g.profiles = profiles[:*nprof]
		of, err := os.Create(*out)
		if err != nil {
			return err
		}
		defer of.Close()
		g.out = bufio.NewWriterSize(of, 1<<20)
		defer g.out.Flush()
		open := func(path string) (*bufio.Writer, func(), error) {
			if path == "" {
				return nil, func() {}, nil
			}
			f, err := os.Create(path)
			if err != nil {
				return nil, nil, err
			}
			w := bufio.NewWriterSize(f, 1<<20)
			return w, func() { w.Flush(); f.Close() }, nil
		}
		var c1, c2, c3 func()
		if g.obs, c1, err = open(*obs); err != nil {
			return err
		}
		defer c1()
		if g.walk, c2, err = open(*walk); err != nil {
			return err
		}
		defer c2()
		if g.posl, c3, err = open(*posl); err != nil {
			return err
		}
		defer c3()
		if g.want("C19") {
			if err := loadPosDocs(*astfile); err != nil {
				return err
			}
		}
		var dumpW *bufio.Writer
		if *dump != "" {
			df, err := os.Create(*dump)
			if err != nil {
				return err
			}
			defer df.Close()
			dumpW = bufio.NewWriter(df)
			defer dumpW.Flush()
		}
		if *raw != "" {
			src := inputSource{infile: *raw}
			_, err := src.each(func(in string) {
				g.line++
				g.rawInput(src.curDir, in)
			})
			if err != nil {
				return err
			}
			b, _ := json.Marshal(g.stats)
			fmt.Println(string(b))
			return nil
		}
		_, err = readTLCLines(*in, func(raw []byte) error {
			g.line++
			s, err := parseTape(raw)
			if err != nil {
				return fmt.Errorf("line %d: %v", g.line, err)
			}
			if dumpW != nil && *dumpStruct {
				type sn struct {
					Dir   string  `json:"dir"`
					Toks  [][]int `json:"toks"`
					Nodes [][]int `json:"nodes"`
				}
				rec := sn{Dir: dirOf(s.Start), Toks: [][]int{}, Nodes: [][]int{}}
				for _, t := range s.Toks {
					if t.Surf {
						rec.Toks = append(rec.Toks, ints(t.S))
					}
				}
				var walk func(n *xNode, parent int)
				walk = func(n *xNode, parent int) {
					rec.Nodes = append(rec.Nodes, []int{n.First + 1, n.Last + 1, parent})
					me := len(rec.Nodes)
					if n.First < 0 {
						rec.Nodes[me-1] = []int{1, 0, parent}
					}
					for _, c := range n.Kids {
						walk(c, me)
					}
				}
				walk(s.Root, 0)
				if len(rec.Toks) <= *maxToks && len(rec.Nodes) <= *maxToks*3/2 {
					b, _ := json.Marshal(rec)
					dumpW.Write(b)
					dumpW.WriteByte('\n')
					g.stats.Sentences++
				}
				return nil
			}
			if dumpW != nil {
				text, _, _ := render(s.Toks, false, g.profiles[0])
				dir := dirOf(s.Start)
				b, _ := json.Marshal(map[string]string{"dir": dir, "name": fmt.Sprintf("G-%s-%d", s.Start, g.line), "text": text})
				dumpW.Write(b)
				dumpW.WriteByte('\n')
				g.stats.Sentences++
				return nil
			}
			g.sentence(s)
			return nil
		})
		if err != nil {
			return err
		}
		b, _ := json.Marshal(g.stats)
		fmt.Println(string(b))
		return nil
	})
}
