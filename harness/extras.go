package main

import (
	"encoding/json"
	"errors"
	"flag"
	"fmt"
	"reflect"
	"strings"

	"github.com/cloudspannerecosystem/memefish"
	"github.com/cloudspannerecosystem/memefish/ast"
	"github.com/cloudspannerecosystem/memefish/char"
	"github.com/cloudspannerecosystem/memefish/token"
)

// extras: replay of Extras.tla (behaviour outside the listed properties: package char, ast.Options accessors,
// MultiError.Error).  Every case carries the observation the specification computed.

type extraCase struct {
	T string `json:"t"`
	// byte
	C                                         int
	Digit, Octal, Hex, Idstart, Idpart, Print bool
	Upper                                     int
	// fold
	A, B int
	Eq   bool
	// options
	Recs  [][]string
	Found map[string]bool
	Bool  map[string]string
	Int   map[string]string
	Str   map[string]string
	// multierror
	N    int
	Text string
}

func optClass[T any](v *T, err error) string {
	switch {
	case err == nil && v == nil:
		return "nil"
	case err == nil:
		return fmt.Sprint(reflect.ValueOf(v).Elem().Interface())
	case errors.Is(err, ast.ErrFieldNotFound):
		return "notfound"
	case strings.Contains(err.Error(), "type mismatched"):
		return "mismatch"
	}
	return "error:" + err.Error()
}

func init() {
	register("extras", "replay Extras.tla cases (char classes, Options accessors, MultiError) into the real code", func(args []string) error {
		fs := flag.NewFlagSet("extras", flag.ExitOnError)
		in := fs.String("in", "", "Extras.tla output")
		fs.Parse(args)
		type dev struct {
			Case   string `json:"case"`
			Detail string `json:"detail"`
		}
		devs := []dev{}
		counts := map[string]int{}
		add := func(raw []byte, format string, a ...any) {
			c := string(raw)
			if len(c) > 300 {
				c = c[:300]
			}
			devs = append(devs, dev{c, fmt.Sprintf(format, a...)})
		}
		_, err := readTLCLines(*in, func(raw []byte) error {
			var c extraCase
			if err := json.Unmarshal(raw, &c); err != nil {
				return err
			}
			counts[c.T]++
			switch c.T {
			case "byte":
				b := byte(c.C)
				got := []bool{char.IsDigit(b), char.IsOctalDigit(b), char.IsHexDigit(b), char.IsIdentStart(b), char.IsIdentPart(b), char.IsPrint(b)}
				want := []bool{c.Digit, c.Octal, c.Hex, c.Idstart, c.Idpart, c.Print}
				if !reflect.DeepEqual(got, want) {
					add(raw, "classes digit/octal/hex/idstart/idpart/print: got %v want %v", got, want)
				}
				if u := char.ToUpper(string([]byte{b})); u != string([]byte{byte(c.Upper)}) {
					add(raw, "ToUpper: got %q", u)
				}
			case "fold":
				x, y := string([]byte{'p', byte(c.A), 'q'}), string([]byte{'P', byte(c.B), 'Q'})
				if got := char.EqualFold(x, y); got != c.Eq {
					add(raw, "EqualFold(%q, %q) = %v", x, y, got)
				}
				if char.EqualFold(x, y+"r") {
					add(raw, "EqualFold ignores a length difference")
				}
			case "options":
				o := &ast.Options{}
				if len(c.Recs) > 0 {
					var parts []string
					for _, r := range c.Recs {
						parts = append(parts, r[0]+" = "+r[1])
					}
					src := "ALTER DATABASE d SET OPTIONS (" + strings.Join(parts, ", ") + ")"
					n, err := memefish.ParseDDL("", src)
					ad, ok := n.(*ast.AlterDatabase)
					if err != nil || !ok || ad.Options == nil {
						add(raw, "cannot build the options from %q: %v", src, err)
						return nil
					}
					o = ad.Options
				}
				for name := range c.Found {
					if _, found := o.Field(name); found != c.Found[name] {
						add(raw, "Field(%s) found=%v", name, found)
					}
					if got := optClass(o.BoolField(name)); got != c.Bool[name] {
						add(raw, "BoolField(%s) = %s, specification %s", name, got, c.Bool[name])
					}
					if got := optClass(o.IntegerField(name)); got != c.Int[name] {
						add(raw, "IntegerField(%s) = %s, specification %s", name, got, c.Int[name])
					}
					if got := optClass(o.StringField(name)); got != c.Str[name] {
						add(raw, "StringField(%s) = %s, specification %s", name, got, c.Str[name])
					}
				}
			case "multierror":
				var me memefish.MultiError
				for i := 1; i <= c.N; i++ {
					me = append(me, &memefish.Error{Message: fmt.Sprintf("m%d", i), Position: &token.Position{FilePath: "f", Pos: 0, End: 0}})
				}
				got := me.Error()
				if c.N > 0 {
					got = strings.Replace(got, me[0].Error(), "E1", 1)
				}
				if got != c.Text {
					add(raw, "MultiError.Error() = %q", got)
				}
				if me.String() != me.Error() {
					add(raw, "String() differs from Error()")
				}
				if full := me.FullError(); strings.Count(full, "\n") != c.N {
					add(raw, "FullError has %d lines for %d errors without source", strings.Count(full, "\n"), c.N)
				}
			}
			return nil
		})
		if err != nil {
			return err
		}
		b, _ := json.Marshal(map[string]any{"cases": counts, "deviations": devs})
		fmt.Println(string(b))
		return nil
	})
}
