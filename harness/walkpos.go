package main

import "github.com/cloudspannerecosystem/memefish/ast"

func (g *gramRun) writeWalk(root ast.Node) {}
func (g *gramRun) writePosl(root ast.Node) {}
func loadPosDocs(path string) error         { return nil }
