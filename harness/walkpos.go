package main

import (
	"bufio"
	"crypto/sha256"
	"encoding/json"
	"fmt"
	"math/rand"
	"os"
	"reflect"
	"regexp"
	"strconv"
	"strings"
	"sync"

	"github.com/cloudspannerecosystem/memefish/ast"
	"github.com/cloudspannerecosystem/memefish/token"
	"github.com/cloudspannerecosystem/memefish/tools/util/poslang"
)

// ---------------------------------------------------------------------------------------------
// C17: traversal records (validated by WalkTrace.tla)
// ---------------------------------------------------------------------------------------------

type walkNode struct {
	Kind string  `json:"kind"`
	Ch   [][]any `json:"ch"` // [field, index, child id]
}
type walkRun struct {
	Mode  string  `json:"mode"`
	Prune []int   `json:"prune"`
	Stop  int     `json:"stop"`
	Pan   bool    `json:"pan"`
	Log   [][]any `json:"log"` // [id, path]
}
type walkRec struct {
	Nodes []walkNode `json:"nodes"`
	Roots []int      `json:"roots"`
	Runs  []walkRun  `json:"runs"`
	Src   string     `json:"src,omitempty"`
}

type pathVisitor struct {
	path  []string
	ids   map[ast.Node]int
	prune map[int]bool
	log   *[][]any
}

func (v *pathVisitor) with(s string) *pathVisitor {
	p := make([]string, len(v.path)+1)
	copy(p, v.path)
	p[len(v.path)] = s
	return &pathVisitor{path: p, ids: v.ids, prune: v.prune, log: v.log}
}
func (v *pathVisitor) Visit(n ast.Node) ast.Visitor {
	id := v.ids[n]
	*v.log = append(*v.log, []any{id, append([]string{}, v.path...)})
	if v.prune[id] {
		return nil
	}
	return v.with("<Visit>") // a fresh visitor from every callback: a dropped return value shows in the chain
}
func (v *pathVisitor) VisitMany(ns []ast.Node) ast.Visitor { return v.with("<VisitMany>") }
func (v *pathVisitor) Field(name string) ast.Visitor       { return v.with(name) }
func (v *pathVisitor) Index(i int) ast.Visitor             { return v.with("#" + strconv.Itoa(i)) }

func (g *gramRun) writeWalk(root ast.Node, text string) {
	roots := []ast.Node{root}
	g.walkRecord(roots, text)
	if g.prevRoot != nil && !g.walkBasic {
		g.walkRecord([]ast.Node{g.prevRoot, root}, g.prevText+" || "+text) // the *Many variants
	}
	g.prevRoot = root
	g.prevText = text
}

func (g *gramRun) walkRecord(roots []ast.Node, text string) {
	rec := walkRec{}
	ids := map[ast.Node]int{}
	var add func(n ast.Node, depth int)
	add = func(n ast.Node, depth int) {
		if _, seen := ids[n]; seen || depth > 2000 {
			return
		}
		rec.Nodes = append(rec.Nodes, walkNode{Kind: kindOf(n), Ch: [][]any{}})
		id := len(rec.Nodes)
		ids[n] = id
		for _, c := range children(n) {
			if c.Node == nil {
				continue
			}
			add(c.Node, depth+1)
			rec.Nodes[id-1].Ch = append(rec.Nodes[id-1].Ch, []any{c.Field, c.Index, ids[c.Node]})
		}
	}
	for _, r := range roots {
		add(r, 0)
		rec.Roots = append(rec.Roots, ids[r])
	}
	n := len(rec.Nodes)
	many := len(roots) > 1
	rng := rand.New(rand.NewSource(g.seed + int64(n)))
	pruneSets := [][]int{{}, {}}
	for id := 1; id <= n; id++ {
		if id%3 == 0 {
			pruneSets[1] = append(pruneSets[1], id)
		}
	}
	var rnd []int
	for id := 1; id <= n; id++ {
		if rng.Intn(4) == 0 {
			rnd = append(rnd, id)
		}
	}
	pruneSets = append(pruneSets, rnd, []int{1 + rng.Intn(n)})
	if g.walkBasic {
		pruneSets = pruneSets[:1] // C19 only needs "the fields in declaration order": the unpruned walk
	}
	for _, ps := range pruneSets {
		pm := map[int]bool{}
		for _, id := range ps {
			pm[id] = true
		}
		// Walk with a path-recording visitor
		run := walkRun{Mode: "walk", Prune: append([]int{}, ps...), Log: [][]any{}}
		v := &pathVisitor{ids: ids, prune: pm, log: &run.Log}
		if ok, _ := safely(func() {
			if many {
				ast.WalkMany(roots, v)
			} else {
				ast.Walk(roots[0], v)
			}
		}); !ok {
			run.Pan = true
		}
		rec.Runs = append(rec.Runs, run)
		// Inspect: returning false prunes
		run2 := walkRun{Mode: "inspect", Prune: append([]int{}, ps...), Log: [][]any{}}
		f := func(nd ast.Node) bool {
			run2.Log = append(run2.Log, []any{ids[nd], []string{}})
			return !pm[ids[nd]]
		}
		if ok, _ := safely(func() {
			if many {
				ast.InspectMany(roots, f)
			} else {
				ast.Inspect(roots[0], f)
			}
		}); !ok {
			run2.Pan = true
		}
		rec.Runs = append(rec.Runs, run2)
	}
	// a sequence value is re-iterable: after an early break the same iter.Seq yields the whole pre-order again
	if !g.walkBasic && n >= 2 {
		run := walkRun{Mode: "preorder", Prune: []int{}, Stop: 0, Log: [][]any{}}
		if ok, _ := safely(func() {
			seq := ast.Preorder(roots[0])
			if many {
				seq = ast.PreorderMany(roots)
			}
			for range seq {
				break
			}
			for nd := range seq {
				run.Log = append(run.Log, []any{ids[nd], []string{}})
			}
		}); !ok {
			run.Pan = true
		}
		rec.Runs = append(rec.Runs, run)
	}
	for _, stop := range []int{0, 1, 2, n / 2, n - 1} {
		if stop < 0 || stop > n || g.walkBasic {
			continue
		}
		run := walkRun{Mode: "preorder", Prune: []int{}, Stop: stop, Log: [][]any{}}
		if ok, _ := safely(func() {
			k := 0
			seq := ast.Preorder(roots[0])
			if many {
				seq = ast.PreorderMany(roots)
			}
			for nd := range seq {
				run.Log = append(run.Log, []any{ids[nd], []string{}})
				k++
				if stop > 0 && k == stop {
					break
				}
			}
		}); !ok {
			run.Pan = true
		}
		rec.Runs = append(rec.Runs, run)
	}
	b, _ := json.Marshal(rec)
	// identical records (same tree shape, same callbacks) are validated once
	h := sha256.Sum256(b)
	if g.walkSeen == nil {
		g.walkSeen = map[[32]byte]bool{}
	}
	if g.walkSeen[h] {
		g.stats.Starts["walk-records-identical"]++
		return
	}
	g.walkSeen[h] = true
	g.stats.Starts["walk-records-distinct"]++
	rec.Src = strconv.QuoteToASCII(text) // the first input that produced this record (not part of what is validated)
	b, _ = json.Marshal(rec)
	g.walk.Write(b)
	g.walk.WriteByte('\n')
}

// ---------------------------------------------------------------------------------------------
// C19: position expressions.  The harness parses the "// pos =" / "// end =" documentation of every
// node struct with its own reader of the POS EBNF (printed at the top of ast/ast.go), logs the
// field environment of every parsed node and the observed Pos()/End(); PosLangTrace.tla evaluates
// the expression.  The repository's own interpreter (tools/util/poslang) is run as well.
// ---------------------------------------------------------------------------------------------

type posDoc struct {
	PosSrc, EndSrc string
	Pos, End       any // expression trees (JSON-able)
	iPos, iEnd     poslang.PosExpr
}

var posDocs = map[string]*posDoc{}

func loadPosDocs(path string) error {
	fh, err := os.Open(path)
	if err != nil {
		return err
	}
	defer fh.Close()
	reType := regexp.MustCompile(`^type (\w+) struct \{`)
	rePos := regexp.MustCompile(`^\s*// pos = (.*)$`)
	reEnd := regexp.MustCompile(`^\s*// end = (.*)$`)
	sc := bufio.NewScanner(fh)
	sc.Buffer(make([]byte, 1<<20), 1<<24)
	cur := ""
	for sc.Scan() {
		line := sc.Text()
		if m := reType.FindStringSubmatch(line); m != nil {
			cur = m[1]
			posDocs[cur] = &posDoc{}
			continue
		}
		if cur == "" {
			continue
		}
		if m := rePos.FindStringSubmatch(line); m != nil {
			posDocs[cur].PosSrc = strings.TrimSpace(m[1])
		}
		if m := reEnd.FindStringSubmatch(line); m != nil {
			posDocs[cur].EndSrc = strings.TrimSpace(m[1])
		}
		if line == "}" {
			cur = ""
		}
	}
	for name, d := range posDocs {
		if d.PosSrc == "" || d.EndSrc == "" {
			delete(posDocs, name)
			continue
		}
		var err error
		if d.Pos, err = parsePosDoc(d.PosSrc); err != nil {
			return fmt.Errorf("%s pos: %v", name, err)
		}
		if d.End, err = parsePosDoc(d.EndSrc); err != nil {
			return fmt.Errorf("%s end: %v", name, err)
		}
		d.iPos, _ = poslang.Parse(d.PosSrc)
		d.iEnd, _ = poslang.Parse(d.EndSrc)
	}
	return sc.Err()
}

// ---- reader of the POS EBNF -------------------------------------------------------------------
//
//	PosChoice -> PosExpr ("||" PosExpr)*          PosExpr -> PosAtom ("+" IntAtom)*
//	PosAtom   -> PosVar | NodeExpr "." ("pos" | "end")
//	NodeExpr  -> NodeAtom | "(" NodeAtom ("??" NodeAtom)* ")"
//	NodeAtom  -> NodeVar | NodeSliceVar "[" (IntAtom | "$") "]"
//	IntAtom   -> IntVal | "len" "(" StringVar ")" | "(" BoolVar "?" IntAtom ":" IntAtom ")"
type posReader struct {
	toks []string
	i    int
}

func tokenizePos(s string) []string {
	re := regexp.MustCompile(`\|\||\?\?|[A-Za-z_][A-Za-z_0-9]*|[0-9]+|[()\[\]$+.?:]`)
	return re.FindAllString(s, -1)
}
func (r *posReader) peek() string {
	if r.i < len(r.toks) {
		return r.toks[r.i]
	}
	return ""
}
func (r *posReader) next() string { t := r.peek(); r.i++; return t }
func (r *posReader) expect(t string) {
	if r.next() != t {
		panic(fmt.Errorf("expected %q at token %d of %v", t, r.i, r.toks))
	}
}
func isName(t string) bool {
	return t != "" && (t[0] == '_' || (t[0] >= 'A' && t[0] <= 'Z') || (t[0] >= 'a' && t[0] <= 'z'))
}

func parsePosDoc(src string) (e any, err error) {
	defer func() {
		if x := recover(); x != nil {
			err = fmt.Errorf("%v", x)
		}
	}()
	r := &posReader{toks: tokenizePos(src)}
	e = r.choice()
	if r.i != len(r.toks) {
		panic(fmt.Errorf("trailing tokens in %q", src))
	}
	return
}
func (r *posReader) choice() any {
	args := []any{r.posExpr()}
	for r.peek() == "||" {
		r.next()
		args = append(args, r.posExpr())
	}
	return map[string]any{"op": "choice", "args": args}
}
func (r *posReader) posExpr() any {
	x := r.posAtom()
	ns := []any{}
	for r.peek() == "+" {
		r.next()
		ns = append(ns, r.intAtom())
	}
	return map[string]any{"op": "add", "x": x, "ns": ns}
}
func (r *posReader) posAtom() any {
	if r.peek() == "(" {
		r.next()
		args := []any{r.nodeAtom()}
		for r.peek() == "??" {
			r.next()
			args = append(args, r.nodeAtom())
		}
		r.expect(")")
		return r.posOrEnd(map[string]any{"op": "nchoice", "args": args})
	}
	name := r.next()
	if !isName(name) {
		panic(fmt.Errorf("name expected, got %q", name))
	}
	if r.peek() == "[" || r.peek() == "." {
		r.i--
		return r.posOrEnd(map[string]any{"op": "nchoice", "args": []any{r.nodeAtom()}})
	}
	return map[string]any{"op": "posvar", "name": name}
}
func (r *posReader) posOrEnd(node any) any {
	r.expect(".")
	switch r.next() {
	case "pos":
		return map[string]any{"op": "npos", "node": node}
	case "end":
		return map[string]any{"op": "nend", "node": node}
	}
	panic(fmt.Errorf("pos or end expected"))
}
func (r *posReader) nodeAtom() any {
	name := r.next()
	if !isName(name) {
		panic(fmt.Errorf("node name expected, got %q", name))
	}
	if r.peek() == "[" {
		r.next()
		if r.peek() == "$" {
			r.next()
			r.expect("]")
			return map[string]any{"op": "nlast", "name": name}
		}
		i := r.intAtom()
		r.expect("]")
		return map[string]any{"op": "nidx", "name": name, "i": i}
	}
	return map[string]any{"op": "nvar", "name": name}
}
func (r *posReader) intAtom() any {
	t := r.next()
	switch {
	case t == "len":
		r.expect("(")
		name := r.next()
		r.expect(")")
		return map[string]any{"op": "len", "name": name}
	case t == "(":
		name := r.next()
		r.expect("?")
		a := r.intAtom()
		r.expect(":")
		b := r.intAtom()
		r.expect(")")
		return map[string]any{"op": "cond", "name": name, "a": a, "b": b}
	default:
		v, err := strconv.Atoi(t)
		if err != nil {
			panic(fmt.Errorf("integer expected, got %q", t))
		}
		return map[string]any{"op": "int", "v": v}
	}
}

func posNames(e any, out map[string]bool) {
	switch x := e.(type) {
	case map[string]any:
		if n, ok := x["name"].(string); ok {
			out[n] = true
		}
		for _, v := range x {
			posNames(v, out)
		}
	case []any:
		for _, v := range x {
			posNames(v, out)
		}
	}
}

func nodeEnv(n ast.Node) map[string]any {
	if n == nil {
		return map[string]any{"nil": true, "pos": -1, "end": -1}
	}
	p, e := -9, -9
	safely(func() { p = int(n.Pos()) })
	safely(func() { e = int(n.End()) })
	return map[string]any{"nil": false, "pos": p, "end": e}
}

func (g *gramRun) writePosl(root ast.Node) {
	// The repository's interpreter is evaluated for all nodes of the tree side by side (one goroutine
	// per node): its result must not depend on who else is evaluating.
	var all []ast.Node
	eachNode(root, 0, func(n ast.Node, _ int) { all = append(all, n) })
	type iv struct{ p, e int }
	interp := make([]iv, len(all))
	var wg sync.WaitGroup
	for i, n := range all {
		interp[i] = iv{-9, -9}
		d := posDocs[kindOf(n)]
		if d == nil || d.iPos == nil || d.iEnd == nil {
			continue
		}
		wg.Add(1)
		go func(i int, n ast.Node, d *posDoc) {
			defer wg.Done()
			safely(func() { interp[i].p = int(d.iPos.EvalPos(n)) })
			safely(func() { interp[i].e = int(d.iEnd.EvalPos(n)) })
		}(i, n, d)
	}
	wg.Wait()
	idx := -1
	eachNode(root, 0, func(n ast.Node, _ int) {
		idx++
		kind := kindOf(n)
		d := posDocs[kind]
		if d == nil {
			g.stats.Findings["C19-undocumented-"+kind]++
			return
		}
		names := map[string]bool{}
		posNames(d.Pos, names)
		posNames(d.End, names)
		env := map[string]any{}
		v := reflect.ValueOf(n).Elem()
		for name := range names {
			fv := v.FieldByName(name)
			if !fv.IsValid() {
				env[name] = map[string]any{"missing": true}
				continue
			}
			switch {
			case fv.Type() == posType:
				env[name] = map[string]any{"v": int(fv.Int())}
			case isNodeType(fv.Type()):
				env[name] = nodeEnv(asNode(fv))
			case isNodeSlice(fv.Type()):
				items := []any{}
				for i := 0; i < fv.Len(); i++ {
					items = append(items, nodeEnv(asNode(fv.Index(i))))
				}
				env[name] = map[string]any{"items": items}
			case fv.Kind() == reflect.Bool:
				env[name] = map[string]any{"b": fv.Bool()}
			case fv.Kind() == reflect.String:
				env[name] = map[string]any{"len": len(fv.String())}
			default:
				env[name] = map[string]any{"missing": true}
			}
		}
		rec := map[string]any{"kind": kind, "posx": d.Pos, "endx": d.End, "env": env, "pos": int(n.Pos()), "end": int(n.End()), "ipos": interp[idx].p, "iend": interp[idx].e}
		b, _ := json.Marshal(rec)
		g.posl.Write(b)
		g.posl.WriteByte('\n')
		g.stats.Kinds["posl:"+kind]++
	})
}

var _ = token.InvalidPos
