package main

import (
	"encoding/json"
	"flag"
	"fmt"
	"math/rand"
	"os"
	"strings"
	"unicode/utf8"

	"github.com/cloudspannerecosystem/memefish"
	"github.com/cloudspannerecosystem/memefish/token"
)

// ---------------------------------------------------------------------------------------------
// C15: quoting functions
// ---------------------------------------------------------------------------------------------

type quoteRec struct {
	Fn  string `json:"fn"`
	S   []int  `json:"s"`
	Q   []int  `json:"q"`
	Pan bool   `json:"pan"`
	// what the REAL lexer makes of q: number of tokens before <eof> (-1: error), kind and value of the first
	Rn int    `json:"rn"`
	Rk string `json:"rk"`
	Rv []int  `json:"rv"`
}

func quoteOne(fn, s string) (r quoteRec) {
	r = quoteRec{Fn: fn, S: ints(s), Q: []int{}}
	defer func() {
		if x := recover(); x != nil {
			r.Pan = true
		}
	}()
	switch fn {
	case "str":
		r.Q = ints(token.QuoteSQLString(s))
	case "bytes":
		r.Q = ints(token.QuoteSQLBytes([]byte(s)))
	case "ident":
		r.Q = ints(token.QuoteSQLIdent(s))
	}
	lr := lexRecord(bytesOf(r.Q))
	r.Rn, r.Rv = -1, []int{}
	if !lr.Err && !lr.Pan {
		r.Rn = len(lr.Toks) - 1
		if r.Rn >= 1 {
			r.Rk, r.Rv = lr.Toks[0].K, lr.Toks[0].V
		}
	}
	return
}

func init() {
	register("quoterec", "record QuoteSQLString/Bytes/Ident calls (C15)", func(args []string) error {
		fs := flag.NewFlagSet("quoterec", flag.ExitOnError)
		var src inputSource
		src.flags(fs)
		bytes2 := fs.Bool("all2", false, "every 1- and 2-byte string")
		cps := fs.String("codepoints", "", "all | sample : every Unicode code point / block boundaries as a string")
		fs.Parse(args)
		cw, err := newChunkWriter(src.outPref, src.chunks)
		if err != nil {
			return err
		}
		n := 0
		emit := func(s string) {
			cw.write(quoteOne("str", s))
			cw.write(quoteOne("bytes", s))
			n += 2
			if s != "" {
				cw.write(quoteOne("ident", s))
				n++
			}
		}
		emit("")
		if *bytes2 {
			for a := 0; a < 256; a++ {
				emit(string([]byte{byte(a)}))
				for b := 0; b < 256; b++ {
					emit(string([]byte{byte(a), byte(b)}))
				}
			}
		}
		cp := func(r rune) {
			var b [4]byte
			k := utf8.EncodeRune(b[:], r)
			s := string(b[:k])
			emit(s)
			if r%64 == 1 {
				emit("a" + s + "_1") // embedded in an identifier-shaped context
			}
		}
		switch *cps {
		case "all":
			for r := rune(0); r <= 0x10FFFF; r++ {
				if r >= 0xD800 && r <= 0xDFFF {
					continue
				}
				cp(r)
			}
		case "sample":
			rng := rand.New(rand.NewSource(src.seed))
			for r := rune(0); r <= 0x10FFFF; r++ {
				if r >= 0xD800 && r <= 0xDFFF {
					continue
				}
				if r < 0x800 || r%0x100 < 2 || r%0x100 == 0xFF || (r >= 0xFFF0 && r <= 0x10010) || r >= 0x10FFF0 || rng.Intn(400) == 0 {
					cp(r)
				}
			}
		}
		// every pair (and pair around a letter) of "interesting units": invalid UTF-8 bytes, U+FFFD itself,
		// quotes, backslash, controls, non-printable Latin-1, astral code points, keyword-ish letters
		units := []string{"\x80", "\xff", "\xc3", "\xe2\x82", "\xf0\x9f", "\ufffd", "\u00a0", "\u0080", "\u00ad", "\u00e9", "\u2028", "\U0001F600", "\U0010FFFF",
			"'", "\"", "`", "\\", "\n", "\r", "\t", "\x00", "\x7f", "\x1b", "a", "Z", "_", "0", " ", "-", "/", "*", "#", "?", "\a", "\v", "x41", "u0041", "select", "NULL"}
		for _, u1 := range units {
			for _, u2 := range units {
				emit(u1 + u2)
				emit(u1 + "a" + u2)
				emit("'" + u1 + "\"" + u2)
			}
		}
		if _, err := src.each(emit); err != nil {
			return err
		}
		if err := cw.close(); err != nil {
			return err
		}
		fmt.Printf("{\"records\": %d}\n", n)
		return nil
	})
}

// ---------------------------------------------------------------------------------------------
// C12: SplitRawStatements
// ---------------------------------------------------------------------------------------------

type splitPiece struct {
	P int   `json:"p"`
	E int   `json:"e"`
	S []int `json:"s"`
}
type splitRec struct {
	Buf    []int        `json:"buf"`
	Err    bool         `json:"err"`
	Etype  string       `json:"etype"`
	Pan    bool         `json:"pan"`
	Pieces []splitPiece `json:"pieces"`
}

func splitOne(s string) (r splitRec) {
	r = splitRec{Buf: ints(s), Pieces: []splitPiece{}}
	defer func() {
		if x := recover(); x != nil {
			r.Pan = true
			r.Pieces = []splitPiece{}
		}
	}()
	ps, err := memefish.SplitRawStatements("", s)
	if err != nil {
		r.Err = true
		r.Etype = fmt.Sprintf("%T", err)
		return
	}
	for _, p := range ps {
		if p == nil {
			r.Pieces = append(r.Pieces, splitPiece{-1, -1, []int{}})
			continue
		}
		r.Pieces = append(r.Pieces, splitPiece{int(p.Pos), int(p.End), ints(p.Statement)})
	}
	return
}

func init() {
	register("splitrec", "record SplitRawStatements calls (C12)", func(args []string) error {
		fs := flag.NewFlagSet("splitrec", flag.ExitOnError)
		var src inputSource
		src.flags(fs)
		fs.Parse(args)
		cw, err := newChunkWriter(src.outPref, src.chunks)
		if err != nil {
			return err
		}
		n, err := src.each(func(in string) { cw.write(splitOne(in)) })
		if err != nil {
			return err
		}
		if err := cw.close(); err != nil {
			return err
		}
		fmt.Printf("{\"records\": %d}\n", n)
		return nil
	})
}

// ---------------------------------------------------------------------------------------------
// C20: File.Position / ResolvePos, and the message prefix of real errors
// ---------------------------------------------------------------------------------------------

type fileRec struct {
	Kind   string `json:"kind"`
	Buf    []int  `json:"buf"`
	Path   []int  `json:"path"`
	Pos    int    `json:"pos"`
	End    int    `json:"end"`
	Line   int    `json:"line"`
	Col    int    `json:"col"`
	Eline  int    `json:"eline"`
	Ecol   int    `json:"ecol"`
	Rline  int    `json:"rline"`
	Rcol   int    `json:"rcol"`
	Reline int    `json:"reline"`
	Recol  int    `json:"recol"`
	Src    []int  `json:"src"`
	Str    []int  `json:"str"`
	Msg    []int  `json:"msg"`
	Pan    bool   `json:"pan"`
}

func posOne(f *token.File, pos, end int) (r fileRec) {
	r = fileRec{Kind: "pos", Buf: ints(f.Buffer), Path: ints(f.FilePath), Pos: pos, End: end, Src: []int{}, Str: []int{}, Msg: []int{}}
	defer func() {
		if x := recover(); x != nil {
			r.Pan = true
		}
	}()
	p := f.Position(token.Pos(pos), token.Pos(end))
	r.Line, r.Col, r.Eline, r.Ecol = p.Line, p.Column, p.EndLine, p.EndColumn
	r.Src = ints(p.Source)
	r.Str = ints(p.String())
	r.Rline, r.Rcol = f.ResolvePos(token.Pos(pos))
	r.Reline, r.Recol = f.ResolvePos(token.Pos(end))
	return
}

func errRecords(path, s string, emit func(fileRec)) {
	var errs []*memefish.Error
	pan := false
	func() {
		defer func() {
			if x := recover(); x != nil {
				pan = true
			}
		}()
		_, err := memefish.ParseStatements(path, s)
		if me, ok := err.(memefish.MultiError); ok {
			errs = me
		}
		if _, err := memefish.SplitRawStatements(path, s); err != nil {
			if e, ok := err.(*memefish.Error); ok {
				errs = append(errs, e)
			}
		}
	}()
	if pan {
		return // totality is C03's business; C20 only looks at errors that were produced
	}
	for _, e := range errs {
		r := fileRec{Kind: "err", Buf: ints(s), Path: ints(path), Src: []int{}, Str: []int{}, Msg: ints(e.Error())}
		if e.Position != nil {
			r.Pos, r.End = int(e.Position.Pos), int(e.Position.End)
		} else {
			r.Pos, r.End = -1, -1
		}
		emit(r)
	}
}

func init() {
	register("filerec", "record File.Position/ResolvePos and error prefixes (C20)", func(args []string) error {
		fs := flag.NewFlagSet("filerec", flag.ExitOnError)
		var src inputSource
		src.flags(fs)
		errsIn := fs.String("errin", "", "file of inputs whose parse errors are recorded (kind err)")
		fs.Parse(args)
		cw, err := newChunkWriter(src.outPref, src.chunks)
		if err != nil {
			return err
		}
		n := 0
		rng := rand.New(rand.NewSource(src.seed))
		_, err = src.each(func(in string) {
			type pe struct{ p, e int }
			var pairs []pe
			for p := 0; p <= len(in); p++ {
				for e := p; e <= len(in); e++ {
					pairs = append(pairs, pe{p, e})
				}
			}
			// (1) a fresh File per query
			for _, q := range pairs {
				cw.write(posOne(&token.File{FilePath: "f.sql", Buffer: in}, q.p, q.e))
				n++
			}
			// (2) one shared File queried in descending, then seed-shuffled order (history dependence)
			shared := &token.File{FilePath: "", Buffer: in}
			for i := len(pairs) - 1; i >= 0; i-- {
				cw.write(posOne(shared, pairs[i].p, pairs[i].e))
				n++
			}
			rng.Shuffle(len(pairs), func(i, j int) { pairs[i], pairs[j] = pairs[j], pairs[i] })
			for _, q := range pairs {
				cw.write(posOne(shared, q.p, q.e))
				n++
			}
		})
		if err != nil {
			return err
		}
		if *errsIn != "" {
			e2 := inputSource{infile: *errsIn}
			if _, err := e2.each(func(in string) {
				errRecords("dir/q.sql", in, func(r fileRec) { cw.write(r); n++ })
			}); err != nil {
				return err
			}
		}
		if err := cw.close(); err != nil {
			return err
		}
		fmt.Printf("{\"records\": %d}\n", n)
		return nil
	})
}

// filereplay: spec -> code direction of C20.  FileGen.tla computed line/column/excerpt/prefix; the real
// token.File must return exactly these.
func init() {
	register("filereplay", "replay FileGen.tla behaviours into token.File (C20, spec -> code)", func(args []string) error {
		fs := flag.NewFlagSet("filereplay", flag.ExitOnError)
		in := fs.String("in", "", "FileGen output")
		mism := fs.String("mism", "", "file receiving mismatching cases")
		fs.Parse(args)
		type exp struct {
			Buf    []int `json:"buf"`
			Pos    int   `json:"pos"`
			End    int   `json:"end"`
			Line   int   `json:"line"`
			Col    int   `json:"col"`
			Eline  int   `json:"eline"`
			Ecol   int   `json:"ecol"`
			Src    []int `json:"src"`
			Prefix []int `json:"prefix"`
		}
		var mf *os.File
		nm := 0
		n, err := readTLCLines(*in, func(raw []byte) error {
			var e exp
			if err := json.Unmarshal(raw, &e); err != nil {
				return err
			}
			r := posOne(&token.File{FilePath: "f", Buffer: bytesOf(e.Buf)}, e.Pos, e.End)
			src := bytesOf(r.Src)
			if r.Line != r.Eline {
				src = strings.TrimPrefix(src, "\n") // tolerated leading newline of a multi-line excerpt
			}
			ok := !r.Pan && r.Line == e.Line && r.Col == e.Col && r.Eline == e.Eline && r.Ecol == e.Ecol &&
				src == bytesOf(e.Src) && bytesOf(r.Str) == bytesOf(e.Prefix) && r.Rline == e.Line && r.Rcol == e.Col
			if !ok {
				if mf == nil {
					var err error
					if mf, err = os.Create(*mism); err != nil {
						return err
					}
				}
				b, _ := json.Marshal(r)
				mf.Write(append(b, '\n'))
				nm++
			}
			return nil
		})
		if mf != nil {
			mf.Close()
		}
		if err != nil {
			return err
		}
		fmt.Printf("{\"behaviours\": %d, \"mismatches\": %d}\n", n, nm)
		return nil
	})
}
