package main

import (
	"flag"
	"fmt"

	"github.com/cloudspannerecosystem/memefish"
	"github.com/cloudspannerecosystem/memefish/token"
)

// One record per input: the complete observable behaviour of a NextToken loop.
type lexComment struct {
	Sp  []int `json:"sp"`
	Raw []int `json:"raw"`
	P   int   `json:"p"`
	E   int   `json:"e"`
}
type lexTok struct {
	K   string       `json:"k"`
	P   int          `json:"p"`
	E   int          `json:"e"`
	Raw []int        `json:"raw"`
	Sp  []int        `json:"sp"`
	V   []int        `json:"v"`
	Bs  int          `json:"bs"`
	Cs  []lexComment `json:"cs"`
}
type lexRec struct {
	Buf   []int    `json:"buf"`
	Toks  []lexTok `json:"toks"`
	Err   bool     `json:"err"`
	Ep    int      `json:"ep"`
	Ee    int      `json:"ee"`
	Pan   bool     `json:"pan"`
	PanV  string   `json:"panv"`
	Again []lexTok `json:"again"`
}

func projTok(t *token.Token) lexTok {
	k := string(t.Kind)
	tk := lexTok{K: k, P: int(t.Pos), E: int(t.End), Raw: ints(t.Raw), Sp: ints(t.Space), V: []int{}, Bs: t.Base, Cs: []lexComment{}}
	switch t.Kind {
	case token.TokenIdent, token.TokenParam, token.TokenString, token.TokenBytes:
		tk.V = ints(t.AsString)
	case token.TokenInt, token.TokenFloat, token.TokenEOF, token.TokenBad:
	default:
		if _, ok := token.KeywordsMap[t.Kind]; ok {
			tk.K = "kw"
		} else {
			tk.K = "punct"
		}
		tk.V = ints(k)
	}
	for _, c := range t.Comments {
		tk.Cs = append(tk.Cs, lexComment{Sp: ints(c.Space), Raw: ints(c.Raw), P: int(c.Pos), E: int(c.End)})
	}
	return tk
}

// lexRecord runs the real lexer over s with the public API only.
func lexRecord(s string) (rec lexRec) {
	rec = lexRec{Buf: ints(s), Toks: []lexTok{}, Ep: -1, Ee: -1, Again: []lexTok{}}
	defer func() {
		if r := recover(); r != nil {
			rec.Pan = true
			rec.PanV = fmt.Sprint(r)
			if len(rec.PanV) > 120 {
				rec.PanV = rec.PanV[:120]
			}
		}
	}()
	lex := &memefish.Lexer{File: &token.File{Buffer: s}}
	var kept []token.Token
	for {
		err := lex.NextToken()
		if err != nil {
			for i := range kept {
				rec.Toks = append(rec.Toks, projTok(&kept[i]))
			}
			rec.Err = true
			if e, ok := err.(*memefish.Error); ok && e.Position != nil {
				rec.Ep, rec.Ee = int(e.Position.Pos), int(e.Position.End)
			} else {
				rec.Ep, rec.Ee = -2, -2 // wrong dynamic type
			}
			return rec
		}
		// Tokens are kept the way a caller would keep them (a struct copy) and projected only
		// after the whole loop, so that state shared between tokens shows up in the record.
		kept = append(kept, lex.Token)
		if lex.Token.Kind == token.TokenEOF {
			break
		}
		if len(kept) > len(s)+2 { // no progress: more tokens than bytes
			rec.Pan = true
			rec.PanV = "no progress"
			return rec
		}
	}
	for i := range kept {
		rec.Toks = append(rec.Toks, projTok(&kept[i]))
	}
	for i := 0; i < 2; i++ {
		if err := lex.NextToken(); err != nil {
			rec.Again = append(rec.Again, lexTok{K: "<error>", V: []int{}, Raw: []int{}, Sp: []int{}, Cs: []lexComment{}})
			continue
		}
		rec.Again = append(rec.Again, projTok(&lex.Token))
	}
	return rec
}

func init() {
	register("lexrec", "record NextToken loops of the real lexer (C13/C14/C03)", func(args []string) error {
		fs := flag.NewFlagSet("lexrec", flag.ExitOnError)
		var src inputSource
		src.flags(fs)
		fs.Parse(args)
		cw, err := newChunkWriter(src.outPref, src.chunks)
		if err != nil {
			return err
		}
		var werr error
		n, err := src.each(func(in string) {
			if e := cw.write(lexRecord(in)); e != nil {
				werr = e
			}
		})
		if err != nil {
			return err
		}
		if werr != nil {
			return werr
		}
		if err := cw.close(); err != nil {
			return err
		}
		fmt.Printf("{\"records\": %d}\n", n)
		return nil
	})
}
