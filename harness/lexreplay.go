package main

import (
	"bufio"
	"encoding/json"
	"flag"
	"fmt"
	"os"
	"reflect"
)

// Behaviours emitted by LexGen.tla: the buffer, the specification's token stream and final status.
type specTok struct {
	K  string `json:"k"`
	P  int    `json:"p"`
	E  int    `json:"e"`
	V  []int  `json:"v"`
	Bs int    `json:"bs"`
	Nc int    `json:"nc"`
	Cs []struct {
		P  int `json:"p"`
		E  int `json:"e"`
		Sp int `json:"sp"`
	} `json:"cs"`
}
type specBehaviour struct {
	Buf    []int     `json:"buf"`
	Out    []specTok `json:"out"`
	Status string    `json:"status"`
}

// readTLCLines iterates over a file written by CSVWrite("%1$s", <<ToJson(x)>>, file): one JSON value
// per line (TLC writes the JSON text itself, or a JSON string containing it).
func readTLCLines(path string, f func(raw []byte) error) (int, error) {
	fh, err := os.Open(path)
	if err != nil {
		return 0, err
	}
	defer fh.Close()
	sc := bufio.NewScanner(fh)
	sc.Buffer(make([]byte, 1<<20), 1<<28)
	n := 0
	for sc.Scan() {
		line := sc.Bytes()
		if len(line) == 0 {
			continue
		}
		if line[0] == '"' {
			var inner string
			if err := json.Unmarshal(line, &inner); err != nil {
				return n, err
			}
			line = []byte(inner)
		}
		if err := f(line); err != nil {
			return n, err
		}
		n++
	}
	return n, sc.Err()
}

func bytesOf(v []int) string {
	b := make([]byte, len(v))
	for i, x := range v {
		b[i] = byte(x)
	}
	return string(b)
}

func lexMatches(sb *specBehaviour, rec *lexRec) bool {
	want := sb.Out
	if sb.Status == "err" {
		if !(rec.Err || rec.Pan) {
			return false
		}
		want = want[:len(want)-1]
	} else if rec.Err || rec.Pan {
		return false
	}
	if len(want) != len(rec.Toks) {
		return false
	}
	for i, w := range want {
		g := rec.Toks[i]
		switch {
		case w.K == "p1" || w.K == "p2":
			if g.K != "punct" || !reflect.DeepEqual(w.V, g.V) {
				return false
			}
		case w.K == "kw":
			if g.K != "kw" || bytesOf(w.V) != bytesOf(g.V) {
				return false
			}
		case w.K != g.K:
			return false
		}
		if w.P != g.P || w.E != g.E || len(w.Cs) != len(g.Cs) {
			return false
		}
		switch w.K {
		case "<ident>", "<param>", "<string>", "<bytes>":
			if bytesOf(w.V) != bytesOf(g.V) {
				return false
			}
		case "<int>":
			if w.Bs != g.Bs {
				return false
			}
		}
		for j, c := range w.Cs {
			if c.P != g.Cs[j].P || c.E != g.Cs[j].E || len(g.Cs[j].Sp) != c.P-c.Sp {
				return false
			}
		}
	}
	return true
}

func init() {
	register("lexreplay", "replay LexGen behaviours into the real lexer (spec -> code)", func(args []string) error {
		fs := flag.NewFlagSet("lexreplay", flag.ExitOnError)
		in := fs.String("in", "", "LexGen output")
		mism := fs.String("mism", "", "file receiving mismatching records")
		fs.Parse(args)
		var mf *os.File
		nm := 0
		n, err := readTLCLines(*in, func(raw []byte) error {
			var sb specBehaviour
			if err := json.Unmarshal(raw, &sb); err != nil {
				return err
			}
			rec := lexRecord(bytesOf(sb.Buf))
			if !lexMatches(&sb, &rec) {
				if mf == nil {
					var e error
					if mf, e = os.Create(*mism); e != nil {
						return e
					}
				}
				b, _ := json.Marshal(rec)
				mf.Write(append(b, '\n'))
				nm++
			}
			return nil
		})
		if mf != nil {
			mf.Close()
		}
		if err != nil {
			return err
		}
		fmt.Printf("{\"behaviours\": %d, \"mismatches\": %d}\n", n, nm)
		return nil
	})
}
