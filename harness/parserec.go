package main

import (
	"flag"
	"fmt"
	"os"
	"runtime"
	"strings"
	"sync/atomic"
	"time"

	"github.com/cloudspannerecosystem/memefish"
	"github.com/cloudspannerecosystem/memefish/ast"
	"github.com/cloudspannerecosystem/memefish/token"
)

// One hook event (compact keys).
type pEv struct {
	Ev string `json:"ev"` // S Snapshot, B TokBegin, T Tok, R Recover, D Bad
	Np bool   `json:"np"`
	C  int    `json:"c"`
	D  bool   `json:"d"`
	K  string `json:"k"`
	Kv []int  `json:"kv"`
	Tp int    `json:"tp"`
	Te int    `json:"te"`
	Nc int    `json:"nc"`
	A  int    `json:"a"`
	B  int    `json:"b"`
	N  int    `json:"n"`
}

type pErr struct {
	P   int  `json:"p"`
	E   int  `json:"e"`
	Msg bool `json:"msg"` // message non-empty
}
type pBadTok struct {
	K   string `json:"k"`
	Kv  []int  `json:"kv"`
	P   int    `json:"p"`
	E   int    `json:"e"`
	Raw []int  `json:"raw"`
}
type pBad struct {
	Kind string    `json:"kind"` // parent kind (BadExpr, ...), "" for a bare BadNode
	P    int       `json:"p"`
	E    int       `json:"e"`
	Toks []pBadTok `json:"toks"`
	SQL  []int     `json:"sql"`
}
type pFail struct {
	Kind   string `json:"kind"`
	Method string `json:"method"`
	Msg    string `json:"msg"`
}
type pRet struct {
	NilErr  bool    `json:"nilerr"`
	Etype   string  `json:"etype"`
	Nerrs   int     `json:"nerrs"`
	Verr    int     `json:"verr"` // len(p.errors) seen through the hook accessor
	Errs    []pErr  `json:"errs"`
	NilNode bool    `json:"nilnode"` // a single-node function returned nil / a list contains nil
	Nnodes  int     `json:"nnodes"`
	Fk      string  `json:"fk"` // kind of p.Token after the call
	Fkv     []int   `json:"fkv"`
	Ftp     int     `json:"ftp"`
	Fte     int     `json:"fte"`
	Fc      int     `json:"fc"`
	Bads    []pBad  `json:"bads"`
	Fails   []pFail `json:"fails"` // C04: SQL/Pos/End/Walk calls that panicked
	Ncalls  int     `json:"ncalls"`
	Nodes   [][]int `json:"nodes"` // C05 on error trees: [pos, end, parent (1-based, 0 none), exempt (children of CreateTable)] in reflective pre-order
}

// MarshalJSON writes an event as the array [ev, np, c, d, k, kv, tp, te, nc, a, b, n] (6x smaller than an object).
func (e pEv) MarshalJSON() ([]byte, error) {
	var b strings.Builder
	fmt.Fprintf(&b, "[%q,%t,%d,%t,%q,[", e.Ev, e.Np, e.C, e.D, e.K)
	for i, v := range e.Kv {
		if i > 0 {
			b.WriteByte(',')
		}
		fmt.Fprintf(&b, "%d", v)
	}
	fmt.Fprintf(&b, "],%d,%d,%d,%d,%d,%d]", e.Tp, e.Te, e.Nc, e.A, e.B, e.N)
	return []byte(b.String()), nil
}

type pRec struct {
	Entry string `json:"entry"`
	Buf   []int  `json:"buf"`
	Evs   []pEv  `json:"evs"`
	Ret   pRet   `json:"ret"`
	Pan   bool   `json:"pan"`
	PanV  string `json:"panv"`
}

var entries = []string{"ParseStatement", "ParseStatements", "ParseQuery", "ParseExpr", "ParseType", "ParseDDL", "ParseDDLs", "ParseDML", "ParseDMLs"}

func kindJSON(k token.TokenKind) (string, []int) {
	switch k {
	case token.TokenIdent, token.TokenParam, token.TokenString, token.TokenBytes, token.TokenInt, token.TokenFloat, token.TokenEOF, token.TokenBad, "":
		return string(k), []int{}
	}
	if _, ok := token.KeywordsMap[k]; ok {
		return "kw", ints(string(k))
	}
	return "punct", ints(string(k))
}

// current sink target (single-threaded recording)
var curEvents *[]pEv
var curFile *token.File

func sink(ev *memefish.VerifEvent) {
	if curEvents == nil || ev.File != curFile {
		return
	}
	k, kv := kindJSON(ev.Kind)
	e := pEv{Np: ev.NoPanic, C: ev.Cursor, D: ev.Dot, K: k, Kv: kv, Tp: int(ev.TokPos), Te: int(ev.TokEnd), Nc: ev.NComm, A: ev.A, B: ev.B, N: ev.C}
	switch ev.Ev {
	case "Snapshot":
		e.Ev = "S"
	case "TokBegin":
		e.Ev = "B"
	case "Tok":
		e.Ev = "T"
	case "Recover":
		e.Ev = "R"
	case "Bad":
		e.Ev = "D"
	}
	*curEvents = append(*curEvents, e)
}

func callEntry(p *memefish.Parser, entry string) (nodes []ast.Node, err error) {
	add := func(n ast.Node) { nodes = append(nodes, n) }
	switch entry {
	case "ParseStatement":
		n, e := p.ParseStatement()
		add(wrap(n))
		err = e
	case "ParseStatements":
		ns, e := p.ParseStatements()
		for _, n := range ns {
			add(wrap(n))
		}
		err = e
	case "ParseQuery":
		n, e := p.ParseQuery()
		if n == nil {
			add(nil)
		} else {
			add(n)
		}
		err = e
	case "ParseExpr":
		n, e := p.ParseExpr()
		add(wrap(n))
		err = e
	case "ParseType":
		n, e := p.ParseType()
		add(wrap(n))
		err = e
	case "ParseDDL":
		n, e := p.ParseDDL()
		add(wrap(n))
		err = e
	case "ParseDDLs":
		ns, e := p.ParseDDLs()
		for _, n := range ns {
			add(wrap(n))
		}
		err = e
	case "ParseDML":
		n, e := p.ParseDML()
		add(wrap(n))
		err = e
	case "ParseDMLs":
		ns, e := p.ParseDMLs()
		for _, n := range ns {
			add(wrap(n))
		}
		err = e
	default:
		panic("unknown entry " + entry)
	}
	return
}

// wrap turns typed nils into nil.
func wrap(n ast.Node) ast.Node {
	if n == nil {
		return nil
	}
	return asNode(reflectValue(n))
}

type walkCounter struct{ n int }

func (w *walkCounter) Visit(ast.Node) ast.Visitor       { w.n++; return w }
func (w *walkCounter) VisitMany([]ast.Node) ast.Visitor { return w }
func (w *walkCounter) Field(string) ast.Visitor         { return w }
func (w *walkCounter) Index(int) ast.Visitor            { return w }

// exercise calls SQL/Pos/End on every node and the traversal functions on the roots (C04).
func exercise(roots []ast.Node, ret *pRet) {
	fail := func(n ast.Node, method, msg string) {
		k := "?"
		if n != nil {
			k = kindOf(n)
		}
		if len(ret.Fails) < 20 {
			ret.Fails = append(ret.Fails, pFail{k, method, msg})
		}
	}
	for _, root := range roots {
		if root == nil {
			continue
		}
		var all []ast.Node
		if ok, msg := safely(func() { eachNode(root, 0, func(n ast.Node, _ int) { all = append(all, n) }) }); !ok {
			fail(root, "reflect", msg)
		}
		for _, n := range all {
			n := n
			ret.Nnodes++
			for _, m := range []struct {
				name string
				f    func()
			}{{"SQL", func() { _ = n.SQL() }}, {"Pos", func() { _ = n.Pos() }}, {"End", func() { _ = n.End() }}} {
				ret.Ncalls++
				if ok, msg := safely(m.f); !ok {
					fail(n, m.name, msg)
				}
			}
		}
		for _, m := range []struct {
			name string
			f    func()
		}{
			{"Walk", func() { ast.Walk(root, &walkCounter{}) }},
			{"Inspect", func() { ast.Inspect(root, func(ast.Node) bool { return true }) }},
			{"Preorder", func() {
				for range ast.Preorder(root) {
				}
			}},
			{"Preorder-break", func() {
				// a consumer that stops early, at every possible point of a small tree (first 6 otherwise)
				for stop := 1; stop <= len(all) && stop <= 6; stop++ {
					k := 0
					for range ast.Preorder(root) {
						k++
						if k == stop {
							break
						}
					}
				}
			}},
			{"Inspect-prune", func() {
				k := 0
				ast.Inspect(root, func(ast.Node) bool { k++; return k%2 == 1 })
			}},
		} {
			ret.Ncalls++
			if ok, msg := safely(m.f); !ok {
				fail(root, m.name, msg)
			}
		}
	}
}

// exerciseMany: the *Many traversal variants over a list of roots (statement lists), incl. early exit.
func exerciseMany(roots []ast.Node, ret *pRet) {
	var live []ast.Node
	for _, r := range roots {
		if r != nil {
			live = append(live, r)
		}
	}
	if len(live) < 2 {
		return
	}
	total := 0
	for _, r := range live {
		safely(func() { eachNode(r, 0, func(ast.Node, int) { total++ }) })
	}
	for _, m := range []struct {
		name string
		f    func()
	}{
		{"WalkMany", func() { ast.WalkMany(live, &walkCounter{}) }},
		{"InspectMany", func() { k := 0; ast.InspectMany(live, func(ast.Node) bool { k++; return k%3 != 0 }) }},
		{"PreorderMany", func() {
			for range ast.PreorderMany(live) {
			}
		}},
		{"PreorderMany-break", func() {
			for stop := 1; stop <= total && stop <= 8; stop++ {
				k := 0
				for range ast.PreorderMany(live) {
					k++
					if k == stop {
						break
					}
				}
			}
		}},
	} {
		ret.Ncalls++
		if ok, msg := safely(m.f); !ok && len(ret.Fails) < 20 {
			ret.Fails = append(ret.Fails, pFail{kindOf(live[0]), m.name, msg})
		}
	}
}

func collectBads(roots []ast.Node, ret *pRet) {
	for _, root := range roots {
		if root == nil {
			continue
		}
		safely(func() {
			var parentKind = map[*ast.BadNode]string{}
			eachNode(root, 0, func(n ast.Node, _ int) {
				for _, c := range children(n) {
					if b, ok := c.Node.(*ast.BadNode); ok {
						parentKind[b] = kindOf(n)
					}
				}
				b, ok := n.(*ast.BadNode)
				if !ok {
					return
				}
				pb := pBad{Kind: parentKind[b], P: int(b.NodePos), E: int(b.NodeEnd), Toks: []pBadTok{}, SQL: []int{}}
				for _, t := range b.Tokens {
					if t == nil {
						pb.Toks = append(pb.Toks, pBadTok{K: "<nil>", Kv: []int{}, Raw: []int{}})
						continue
					}
					k, kv := kindJSON(t.Kind)
					pb.Toks = append(pb.Toks, pBadTok{K: k, Kv: kv, P: int(t.Pos), E: int(t.End), Raw: ints(t.Raw)})
				}
				safely(func() { pb.SQL = ints(b.SQL()) })
				ret.Bads = append(ret.Bads, pb)
			})
		})
	}
}

// collectNodes lists (pos, end, parent) of every node of an error tree (C05, error clause).
func collectNodes(roots []ast.Node, ret *pRet) {
	for _, root := range roots {
		if root == nil {
			continue
		}
		safely(func() {
			var walk func(n ast.Node, parent, depth int, exempt bool)
			walk = func(n ast.Node, parent, depth int, exempt bool) {
				if depth > 2000 || len(ret.Nodes) > 4000 {
					return
				}
				p, e := -7, -7
				safely(func() { p, e = int(n.Pos()), int(n.End()) })
				ex := 0
				if exempt {
					ex = 1
				}
				ret.Nodes = append(ret.Nodes, []int{p, e, parent, ex})
				me := len(ret.Nodes)
				_, isCT := n.(*ast.CreateTable)
				for _, c := range children(n) {
					if c.Node != nil {
						walk(c.Node, me, depth+1, isCT)
					}
				}
			}
			walk(root, 0, 0, false)
		})
	}
}

var flushOnHang func()      // flushes the record files before the watchdog exits (the main goroutine is stuck in the parse call)
var watchStart atomic.Int64 // unix nanos of the running call, 0 if none
var watchInfo atomic.Value  // string describing the running call

func startWatchdog(hangFile string, limit time.Duration) {
	go func() {
		for {
			time.Sleep(200 * time.Millisecond)
			st := watchStart.Load()
			if st == 0 {
				continue
			}
			var ms runtime.MemStats
			elapsed := time.Duration(time.Now().UnixNano() - st)
			tooBig := false
			if elapsed > time.Second {
				runtime.ReadMemStats(&ms)
				tooBig = ms.HeapAlloc > 6<<30
			}
			if elapsed > limit || tooBig {
				info, _ := watchInfo.Load().(string)
				if flushOnHang != nil {
					flushOnHang()
				}
				os.WriteFile(hangFile, []byte(info), 0o644)
				os.Exit(3)
			}
		}
	}()
}

var callsDone int // calls completed (or skipped) so far in this process

func parseOne(entry, in string, doExercise bool) (rec pRec) {
	rec = pRec{Entry: entry, Buf: ints(in), Evs: []pEv{}}
	rec.Ret = pRet{Errs: []pErr{}, Bads: []pBad{}, Fails: []pFail{}, Fkv: []int{}, Nodes: [][]int{}}
	file := &token.File{FilePath: "", Buffer: in}
	p := &memefish.Parser{Lexer: &memefish.Lexer{File: file}}
	evs := make([]pEv, 0, 64)
	curEvents, curFile = &evs, file
	watchInfo.Store(fmt.Sprintf("{\"entry\":%q,\"buf\":%s,\"done\":%d}", entry, intsJSON(in), callsDone))
	watchStart.Store(time.Now().UnixNano())
	var nodes []ast.Node
	var err error
	func() {
		defer func() {
			if r := recover(); r != nil {
				rec.Pan = true
				rec.PanV = fmt.Sprintf("%T: %v", r, r)
				if len(rec.PanV) > 160 {
					rec.PanV = rec.PanV[:160]
				}
			}
		}()
		nodes, err = callEntry(p, entry)
	}()
	curEvents = nil
	rec.Evs = evs
	if rec.Pan {
		watchStart.Store(0)
		return rec
	}
	ret := &rec.Ret
	ret.NilErr = err == nil
	if err != nil {
		ret.Etype = fmt.Sprintf("%T", err)
		if me, ok := err.(memefish.MultiError); ok {
			ret.Nerrs = len(me)
			for _, e := range me {
				if e == nil {
					ret.Errs = append(ret.Errs, pErr{-9, -9, false})
					continue
				}
				pe := pErr{-1, -1, strings.TrimSpace(e.Message) != ""}
				if e.Position != nil {
					pe.P, pe.E = int(e.Position.Pos), int(e.Position.End)
				}
				ret.Errs = append(ret.Errs, pe)
			}
		}
	}
	ret.Verr = p.VerifErrors()
	ret.Fk, ret.Fkv = kindJSON(p.Token.Kind)
	ret.Ftp, ret.Fte, ret.Fc = int(p.Token.Pos), int(p.Token.End), p.VerifCursor()
	single := !strings.HasSuffix(entry, "s")
	for _, n := range nodes {
		if n == nil {
			ret.NilNode = true
		}
	}
	if single && len(nodes) != 1 {
		ret.NilNode = true
	}
	collectBads(nodes, ret)
	if !ret.NilErr {
		collectNodes(nodes, ret)
	}
	if doExercise {
		exercise(nodes, ret)
		exerciseMany(nodes, ret)
	}
	watchStart.Store(0)
	return rec
}

func intsJSON(s string) string {
	var b strings.Builder
	b.WriteByte('[')
	for i := 0; i < len(s); i++ {
		if i > 0 {
			b.WriteByte(',')
		}
		fmt.Fprintf(&b, "%d", s[i])
	}
	b.WriteByte(']')
	return b.String()
}

func init() {
	register("parserec", "record Parse* calls with hook traces (C03/C04/C09/C10)", func(args []string) error {
		fs := flag.NewFlagSet("parserec", flag.ExitOnError)
		var src inputSource
		src.flags(fs)
		ents := fs.String("entries", "all", "comma separated entry points, or all, or rot (rotate: one entry per input)")
		skip := fs.Int("skip", 0, "skip the first N (entry,input) calls (restart after a hang)")
		hang := fs.String("hangfile", "", "file receiving the running call when the watchdog fires (exit code 3)")
		limit := fs.Int("limit", 6, "watchdog seconds per call")
		noEx := fs.Bool("noexercise", false, "do not call SQL/Pos/End/Walk on the results")
		fs.Parse(args)
		memefish.VerifSink = sink
		if *hang != "" {
			startWatchdog(*hang, time.Duration(*limit)*time.Second)
		}
		cw, err := newChunkWriter(src.outPref, src.chunks)
		if err != nil {
			return err
		}
		flushOnHang = func() { cw.close() }
		list := entries
		rot := false
		switch *ents {
		case "all":
		case "rot":
			rot = true
		default:
			list = strings.Split(*ents, ",")
		}
		calls := 0
		inputs := 0
		byDir := map[string][]string{
			"ddl": {"ParseDDL", "ParseDDLs", "ParseStatement"}, "dml": {"ParseDML", "ParseDMLs", "ParseStatement"},
			"query": {"ParseQuery", "ParseStatement", "ParseStatements"}, "expr": {"ParseExpr"}, "type": {"ParseType"},
			"statement": {"ParseStatement", "ParseStatements"},
		}
		_, err = src.each(func(in string) {
			use := list
			if d, ok := byDir[src.curDir]; ok && *ents == "all" {
				use = d
			}
			if rot {
				use = []string{list[inputs%len(list)], "ParseStatements"}
				if use[0] == use[1] {
					use = use[:1]
				}
			}
			inputs++
			for _, e := range use {
				calls++
				callsDone = calls - 1
				if calls <= *skip {
					continue
				}
				cw.write(parseOne(e, in, !*noEx))
			}
		})
		if err != nil {
			return err
		}
		if err := cw.close(); err != nil {
			return err
		}
		fmt.Printf("{\"records\": %d, \"inputs\": %d}\n", calls-*skip, inputs)
		return nil
	})
}
