package main

import (
	"encoding/json"
	"flag"
	"fmt"
	"reflect"
	"strings"

	"github.com/cloudspannerecosystem/memefish"
	"github.com/cloudspannerecosystem/memefish/ast"
	"github.com/cloudspannerecosystem/memefish/token"
)

// C11 records: what the list entry point returned vs what SplitRawStatements + the single-statement
// entry point return for each piece.
type composePiece struct {
	P     int    `json:"p"`
	E     int    `json:"e"`
	Empty bool   `json:"empty"`
	Nil   bool   `json:"nil"`
	Pan   bool   `json:"pan"`
	D     string `json:"d"`
}
type composeRec struct {
	Entry   string         `json:"entry"`
	Buf     []int          `json:"buf"`
	LexOK   bool           `json:"lexok"`
	ListNil bool           `json:"listnil"`
	ListPan bool           `json:"listpan"`
	Nlist   int            `json:"nlist"`
	Ld      []string       `json:"ld"`
	Pieces  []composePiece `json:"pieces"`
}

// digestShift is digest(withPos) with every valid position shifted by off.
func digestShift(n ast.Node, off int) string {
	var b strings.Builder
	digestShiftValue(&b, reflect.ValueOf(n), off, 0)
	return b.String()
}

func digestShiftValue(b *strings.Builder, v reflect.Value, off, depth int) {
	if depth > 3000 {
		return
	}
	switch v.Kind() {
	case reflect.Interface, reflect.Ptr:
		if v.IsNil() {
			b.WriteString("nil")
			return
		}
		digestShiftValue(b, v.Elem(), off, depth+1)
	case reflect.Struct:
		t := v.Type()
		b.WriteString(t.Name())
		b.WriteByte('{')
		for i := 0; i < t.NumField(); i++ {
			if !t.Field(i).IsExported() {
				continue
			}
			b.WriteString(t.Field(i).Name)
			b.WriteByte(':')
			digestShiftValue(b, v.Field(i), off, depth+1)
			b.WriteByte(';')
		}
		b.WriteByte('}')
	case reflect.Slice:
		if v.Type().Elem().Kind() == reflect.Uint8 {
			fmt.Fprintf(b, "%x", v.Bytes())
			return
		}
		b.WriteByte('[')
		for i := 0; i < v.Len(); i++ {
			digestShiftValue(b, v.Index(i), off, depth+1)
			b.WriteByte(',')
		}
		b.WriteByte(']')
	default:
		if v.Type() == posType {
			p := token.Pos(v.Int())
			if p.Invalid() {
				b.WriteByte('i')
			} else {
				fmt.Fprintf(b, "%d", int(p)+off)
			}
			return
		}
		fmt.Fprintf(b, "%q", fmt.Sprint(v.Interface()))
	}
}

func composeOne(entry, text string) composeRec {
	rec := composeRec{Entry: entry, Buf: ints(text), Ld: []string{}, Pieces: []composePiece{}}
	var singleEntry entryFn
	var nodes []ast.Node
	var err error
	func() {
		defer func() {
			if recover() != nil {
				rec.ListPan = true
			}
		}()
		switch entry {
		case "ParseStatements":
			singleEntry = epStmt
			ns, e := memefish.ParseStatements("", text)
			err = e
			for _, n := range ns {
				nodes = append(nodes, wrap(n))
			}
		case "ParseDDLs":
			singleEntry = epDDL
			ns, e := memefish.ParseDDLs("", text)
			err = e
			for _, n := range ns {
				nodes = append(nodes, wrap(n))
			}
		case "ParseDMLs":
			singleEntry = epDML
			ns, e := memefish.ParseDMLs("", text)
			err = e
			for _, n := range ns {
				nodes = append(nodes, wrap(n))
			}
		}
	}()
	rec.ListNil = err == nil && !rec.ListPan
	rec.Nlist = len(nodes)
	if rec.ListNil {
		for _, n := range nodes {
			if n == nil {
				rec.Ld = append(rec.Ld, "nil")
			} else {
				rec.Ld = append(rec.Ld, digestShift(n, 0))
			}
		}
	}
	var pieces []*memefish.RawStatement
	func() {
		defer func() { recover() }()
		ps, e := memefish.SplitRawStatements("", text)
		if e == nil {
			pieces = ps
			rec.LexOK = true
		}
	}()
	for _, pc := range pieces {
		cp := composePiece{P: int(pc.Pos), E: int(pc.End)}
		toks, ok := lexSig(pc.Statement)
		cp.Empty = ok && len(toks) == 0
		if !cp.Empty {
			n, e, pan := safeCall(singleEntry, pc.Statement)
			cp.Pan = pan != ""
			cp.Nil = e == nil && pan == "" && n != nil
			if cp.Nil {
				cp.D = digestShift(n, int(pc.Pos))
			}
		}
		rec.Pieces = append(rec.Pieces, cp)
	}
	return rec
}

func init() {
	register("compose", "record list entry points vs split + single statement (C11)", func(args []string) error {
		fs := flag.NewFlagSet("compose", flag.ExitOnError)
		in := fs.String("in", "", "StmtList.tla output")
		out := fs.String("out", "", "output prefix")
		chunks := fs.Int("chunks", 1, "chunk files")
		fs.Parse(args)
		cw, err := newChunkWriter(*out, *chunks)
		if err != nil {
			return err
		}
		n, err := readTLCLines(*in, func(raw []byte) error {
			var t struct {
				Entry string `json:"entry"`
				Text  string `json:"text"`
			}
			if err := json.Unmarshal(raw, &t); err != nil {
				return err
			}
			return cw.write(composeOne(t.Entry, t.Text))
		})
		if err != nil {
			return err
		}
		if err := cw.close(); err != nil {
			return err
		}
		fmt.Printf("{\"records\": %d}\n", n)
		return nil
	})
}
