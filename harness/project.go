package main

import (
	"fmt"
	"reflect"

	"github.com/cloudspannerecosystem/memefish/ast"
	"github.com/cloudspannerecosystem/memefish/token"
)

var (
	nodeIface = reflect.TypeOf((*ast.Node)(nil)).Elem()
	posType   = reflect.TypeOf(token.Pos(0))
)

// asNode returns the ast.Node held by v (a pointer or interface value), or nil for nil / typed nil.
func asNode(v reflect.Value) ast.Node {
	switch v.Kind() {
	case reflect.Interface:
		if v.IsNil() {
			return nil
		}
		return asNode(v.Elem())
	case reflect.Ptr:
		if v.IsNil() {
			return nil
		}
		if n, ok := v.Interface().(ast.Node); ok {
			return n
		}
	}
	return nil
}

func isNodeType(t reflect.Type) bool {
	return t.Implements(nodeIface) && (t.Kind() == reflect.Ptr || t.Kind() == reflect.Interface)
}

func isNodeSlice(t reflect.Type) bool {
	return t.Kind() == reflect.Slice && isNodeType(t.Elem())
}

func kindOf(n ast.Node) string {
	return reflect.TypeOf(n).Elem().Name()
}

// childRef is one node-typed position of a struct: a single field or an element of a slice field.
type childRef struct {
	Field string
	Index int // -1 for a single field
	Node  ast.Node
}

// children lists the node-typed exported fields of n in declaration order (nil singles are skipped,
// slices are expanded; nil elements are kept as nil Node so that indices stay true).
func children(n ast.Node) []childRef {
	v := reflect.ValueOf(n).Elem()
	t := v.Type()
	var out []childRef
	for i := 0; i < t.NumField(); i++ {
		f := t.Field(i)
		if !f.IsExported() {
			continue
		}
		fv := v.Field(i)
		switch {
		case isNodeType(f.Type):
			if c := asNode(fv); c != nil {
				out = append(out, childRef{f.Name, -1, c})
			}
		case isNodeSlice(f.Type):
			for j := 0; j < fv.Len(); j++ {
				out = append(out, childRef{f.Name, j, asNode(fv.Index(j))})
			}
		}
	}
	return out
}

// eachNode visits every node reachable by reflection in pre-order (not using ast.Walk, which is
// itself under test).  depth limit guards against cyclic structures.
func eachNode(n ast.Node, depth int, f func(n ast.Node, depth int)) {
	if n == nil || depth > 2000 {
		return
	}
	f(n, depth)
	for _, c := range children(n) {
		if c.Node != nil {
			eachNode(c.Node, depth+1, f)
		}
	}
}

func safely(f func()) (ok bool, msg string) {
	defer func() {
		if r := recover(); r != nil {
			ok = false
			msg = fmt.Sprint(r)
			if len(msg) > 100 {
				msg = msg[:100]
			}
		}
	}()
	f()
	return true, ""
}

func reflectValue(n ast.Node) reflect.Value { return reflect.ValueOf(n) }
