package main

import (
	"encoding/json"
	"fmt"
	"reflect"
	"sort"
	"strings"

	"github.com/cloudspannerecosystem/memefish"
	"github.com/cloudspannerecosystem/memefish/ast"
	"github.com/cloudspannerecosystem/memefish/char"
	"github.com/cloudspannerecosystem/memefish/token"
)

// ---------------------------------------------------------------------------------------------
// Tapes: behaviours of the generator specification Grammar.tla.  The consumer below contains no
// grammar: everything it expects is read off the tape (tokens, tree skeleton, spans).
// ---------------------------------------------------------------------------------------------

type tapeEv struct {
	I     string `json:"i"`
	N     string `json:"n"`
	F     string `json:"f"`
	C     string `json:"c"`
	S     string `json:"s"`
	V     any    `json:"v"`
	Surf  bool   `json:"surf"`
	Canon bool   `json:"canon"`
	Valid bool   `json:"valid"`
}

type tapeRec struct {
	Start string   `json:"start"`
	Wrap  bool     `json:"wrap"`
	Tape  []tapeEv `json:"tape"`
}

type sTok struct {
	C, S        string
	Surf, Canon bool
}

// xNode is a node of the tree the specification expects.
type xNode struct {
	Kind     string
	Field    string // field of the parent holding it
	Idx      int    // index within a list field, -1 otherwise
	Kids     []*xNode
	Scalars  map[string]string
	PosValid map[string]bool
	First    int // index of the first / last surface token (span), -1 if none
	Last     int
}

type sentence struct {
	Start string
	Wrap  bool
	Toks  []sTok
	Root  *xNode
}

func parseTape(raw []byte) (*sentence, error) {
	var tr tapeRec
	if err := json.Unmarshal(raw, &tr); err != nil {
		return nil, err
	}
	s := &sentence{Start: tr.Start, Wrap: tr.Wrap}
	type frame struct {
		n     *xNode
		list  string
		count int
	}
	top := &xNode{Kind: "TOP", First: -1, Last: -1}
	stack := []*frame{{n: top}}
	nsurf := 0 // number of surface tokens so far
	for _, e := range tr.Tape {
		cur := stack[len(stack)-1]
		switch e.I {
		case "OPEN":
			n := &xNode{Kind: e.N, Field: e.F, Idx: -1, Scalars: map[string]string{}, PosValid: map[string]bool{}, First: -1, Last: -1}
			if cur.list != "" {
				n.Field, n.Idx = cur.list, cur.count
				cur.count++
			}
			cur.n.Kids = append(cur.n.Kids, n)
			stack = append(stack, &frame{n: n})
		case "CLOSE":
			stack = stack[:len(stack)-1]
		case "LOPEN":
			stack = append(stack, &frame{n: cur.n, list: e.F})
		case "LCLOSE":
			stack = stack[:len(stack)-1]
		case "T":
			s.Toks = append(s.Toks, sTok{C: e.C, S: e.S, Surf: e.Surf, Canon: e.Canon})
			if e.Surf {
				if e.C != "nz" { // noise tokens (a tolerated trailing comma) never extend a span
					for _, f := range stack {
						if f.n.First < 0 {
							f.n.First = nsurf
						}
						f.n.Last = nsurf
					}
				}
				nsurf++
			}
		case "SET":
			cur.n.Scalars[e.F] = fmt.Sprint(e.V)
		case "POS":
			cur.n.PosValid[e.F] = e.Valid
		default:
			return nil, fmt.Errorf("unknown tape item %q", e.I)
		}
	}
	if len(top.Kids) != 1 {
		return nil, fmt.Errorf("tape has %d roots", len(top.Kids))
	}
	s.Root = top.Kids[0]
	return s, nil
}

// ---------------------------------------------------------------------------------------------
// rendering
// ---------------------------------------------------------------------------------------------

type profile struct {
	Name string
	Seps []string // cycled between tokens
	Case int      // 0 as given (upper), 1 lower, 2 mixed — applies to reserved words and pseudo keywords only
	Lead string
	Tail string
}

var profiles = []profile{
	{Name: "plain", Seps: []string{" "}},
	{Name: "mixed-comments", Seps: []string{" /*c*/ ", " -- c\n", "/**/", " # x\n ", " "}, Case: 2, Lead: "/* lead */ ", Tail: " -- tail"},
	{Name: "tight", Seps: []string{" "}, Case: 0},
	{Name: "unicode-space", Seps: []string{"\u00a0", " \u3000", "\u2028", "\u0085 ", "\u2003\t", "\v\f"}, Case: 1, Lead: "\u00a0", Tail: "\u3000"},
	{Name: "lower-newline", Seps: []string{"\n", " ", "\t"}, Case: 1, Lead: "\n", Tail: "\n"},
	{Name: "slashslash", Seps: []string{" //z\n", "\r\n", "  "}, Case: 1},
	{Name: "mixed2", Seps: []string{" ", "/*a*//*b*/", "\n\n"}, Case: 2},
}

func recase(s string, mode int) string {
	switch mode {
	case 1:
		return strings.ToLower(s)
	case 2:
		b := []byte(s)
		for i := range b {
			if i%2 == 1 {
				b[i] = strings.ToLower(string(b[i]))[0]
			}
		}
		return string(b)
	}
	return s
}

func tightOK(prev, next string) bool {
	if prev == "" {
		return false
	}
	p, n := prev[len(prev)-1], next[0]
	if (next == "." && !(p >= '0' && p <= '9')) || (prev == "." && !(n >= '0' && n <= '9')) {
		return true // a.b, f(x).y  - but never "1." or ".5", which would lex as numbers
	}
	if (prev == ">" && next == ">") || (prev == "<" && next == ">") {
		return true // closing two type brackets at once ('>>'), empty field list ('<>')
	}
	return p == '(' || p == '[' || n == ')' || n == ']' || n == ','
}

// render joins the chosen tokens (surface or canonical) and returns the text with the byte range of every token.
func render(toks []sTok, canon bool, pf profile) (text string, starts, ends []int) {
	var b strings.Builder
	b.WriteString(pf.Lead)
	k := 0
	prev := ""
	for _, t := range toks {
		if (canon && !t.Canon) || (!canon && !t.Surf) {
			continue
		}
		sp := t.S
		if t.C == "kw" || t.C == "pk" || t.C == "nz" {
			sp = recase(sp, pf.Case)
		}
		if k > 0 {
			if pf.Name == "tight" && tightOK(prev, sp) {
				// no separator
			} else {
				sep := pf.Seps[(k-1)%len(pf.Seps)]
				// a comment opener must not be completed by the token in front of it ("/" + "/**/" is "//**/")
				if c := prev[len(prev)-1]; (c == '/' || c == '-' || c == '*') && !strings.HasPrefix(sep, " ") && !strings.HasPrefix(sep, "\n") {
					sep = " " + sep
				}
				b.WriteString(sep)
			}
		}
		starts = append(starts, b.Len())
		b.WriteString(sp)
		ends = append(ends, b.Len())
		prev = sp
		k++
	}
	b.WriteString(pf.Tail)
	return b.String(), starts, ends
}

// ---------------------------------------------------------------------------------------------
// entry points by start symbol
// ---------------------------------------------------------------------------------------------

type entryFn struct {
	Name string
	Call func(s string) (ast.Node, error)
}

func single(n ast.Node, err error) (ast.Node, error) { return wrap(n), err }

var (
	epExpr  = entryFn{"ParseExpr", func(s string) (ast.Node, error) { n, e := memefish.ParseExpr("", s); return single(n, e) }}
	epType  = entryFn{"ParseType", func(s string) (ast.Node, error) { n, e := memefish.ParseType("", s); return single(n, e) }}
	epQuery = entryFn{"ParseQuery", func(s string) (ast.Node, error) {
		n, e := memefish.ParseQuery("", s)
		if n == nil {
			return nil, e
		}
		return n, e
	}}
	epStmt = entryFn{"ParseStatement", func(s string) (ast.Node, error) { n, e := memefish.ParseStatement("", s); return single(n, e) }}
	epDDL  = entryFn{"ParseDDL", func(s string) (ast.Node, error) { n, e := memefish.ParseDDL("", s); return single(n, e) }}
	epDML  = entryFn{"ParseDML", func(s string) (ast.Node, error) { n, e := memefish.ParseDML("", s); return single(n, e) }}
)

// entriesFor returns the specific entry point and, where it exists, the general one that must agree.
func entriesFor(start string) (entryFn, *entryFn) {
	switch {
	case (strings.HasPrefix(start, "E") && len(start) <= 3) || strings.HasPrefix(start, "FE_"):
		return epExpr, nil
	case strings.HasPrefix(start, "FD_"):
		return epDDL, &epStmt
	case strings.HasPrefix(start, "FM_"):
		return epDML, &epStmt
	case start == "Type":
		return epType, nil
	case start == "QueryStatement" || strings.HasPrefix(start, "QS_"):
		return epQuery, &epStmt
	case start == "DML":
		return epDML, &epStmt
	case start == "DDL":
		return epDDL, &epStmt
	case start == "Statement":
		return epStmt, nil
	default:
		return epStmt, nil
	}
}

func safeCall(e entryFn, s string) (n ast.Node, err error, pan string) {
	defer func() {
		if r := recover(); r != nil {
			pan = fmt.Sprint(r)
		}
	}()
	n, err = e.Call(s)
	return
}

func safeSQL(n ast.Node) (s string, pan string) {
	defer func() {
		if r := recover(); r != nil {
			pan = fmt.Sprint(r)
		}
	}()
	return n.SQL(), ""
}

// ---------------------------------------------------------------------------------------------
// digests of real trees
// ---------------------------------------------------------------------------------------------

// digest writes a canonical dump of the tree: every field, positions replaced by their validity
// (withPos = false) or kept (withPos = true).
func digest(n ast.Node, withPos bool) string {
	var b strings.Builder
	digestValue(&b, reflect.ValueOf(n), withPos, 0)
	return b.String()
}

func digestValue(b *strings.Builder, v reflect.Value, withPos bool, depth int) {
	if depth > 3000 {
		b.WriteString("<deep>")
		return
	}
	switch v.Kind() {
	case reflect.Interface, reflect.Ptr:
		if v.IsNil() {
			b.WriteString("nil")
			return
		}
		digestValue(b, v.Elem(), withPos, depth+1)
	case reflect.Struct:
		t := v.Type()
		b.WriteString(t.Name())
		b.WriteByte('{')
		for i := 0; i < t.NumField(); i++ {
			f := t.Field(i)
			if !f.IsExported() {
				continue
			}
			b.WriteString(f.Name)
			b.WriteByte(':')
			digestValue(b, v.Field(i), withPos, depth+1)
			b.WriteByte(';')
		}
		b.WriteByte('}')
	case reflect.Slice:
		if v.Type().Elem().Kind() == reflect.Uint8 {
			fmt.Fprintf(b, "%x", v.Bytes())
			return
		}
		b.WriteByte('[')
		for i := 0; i < v.Len(); i++ {
			digestValue(b, v.Index(i), withPos, depth+1)
			b.WriteByte(',')
		}
		b.WriteByte(']')
	default:
		if v.Type() == posType {
			p := token.Pos(v.Int())
			if withPos {
				fmt.Fprintf(b, "%d", int(p))
			} else if p.Invalid() {
				b.WriteByte('i')
			} else {
				b.WriteByte('v')
			}
			return
		}
		fmt.Fprintf(b, "%q", fmt.Sprint(v.Interface()))
	}
}

// shape is the skeleton: node kinds and the node-typed fields that hold them, nothing else.
func shapeReal(n ast.Node, b *strings.Builder, depth int) {
	if depth > 3000 {
		return
	}
	b.WriteString(kindOf(n))
	kids := children(n)
	if len(kids) == 0 {
		return
	}
	// fields in name order (a tape lists children in source order, a struct in declaration order;
	// the order of DIFFERENT fields is not part of the skeleton, the order inside a list is)
	sort.SliceStable(kids, func(i, j int) bool { return kids[i].Field < kids[j].Field })
	b.WriteByte('(')
	for i, c := range kids {
		if i > 0 {
			b.WriteByte(' ')
		}
		if c.Index >= 0 {
			fmt.Fprintf(b, "%s[%d]=", c.Field, c.Index)
		} else {
			fmt.Fprintf(b, "%s=", c.Field)
		}
		if c.Node == nil {
			b.WriteString("nil")
		} else {
			shapeReal(c.Node, b, depth+1)
		}
	}
	b.WriteByte(')')
}

func shapeExpected(n *xNode, b *strings.Builder) {
	b.WriteString(n.Kind)
	if len(n.Kids) == 0 {
		return
	}
	kids := append([]*xNode(nil), n.Kids...)
	sort.SliceStable(kids, func(i, j int) bool { return kids[i].Field < kids[j].Field })
	b.WriteByte('(')
	for i, c := range kids {
		if i > 0 {
			b.WriteByte(' ')
		}
		if c.Idx >= 0 {
			fmt.Fprintf(b, "%s[%d]=", c.Field, c.Idx)
		} else {
			fmt.Fprintf(b, "%s=", c.Field)
		}
		shapeExpected(c, b)
	}
	b.WriteByte(')')
}

func spansExpected(n *xNode, starts, ends []int, out *[]string) {
	if n.First >= 0 {
		*out = append(*out, fmt.Sprintf("%s[%d,%d)", n.Kind, starts[n.First], ends[n.Last]))
	} else {
		*out = append(*out, fmt.Sprintf("%s[empty]", n.Kind))
	}
	for _, c := range n.Kids {
		spansExpected(c, starts, ends, out)
	}
}

func spansReal(root ast.Node, out *[]string) {
	eachNode(root, 0, func(n ast.Node, _ int) {
		*out = append(*out, fmt.Sprintf("%s[%d,%d)", kindOf(n), n.Pos(), n.End()))
	})
}

// ---------------------------------------------------------------------------------------------
// significant tokens of a text according to the REAL lexer (itself validated against LexerCore.tla)
// ---------------------------------------------------------------------------------------------

type sigTok struct {
	Kind string // token kind ("<ident>", "SELECT", "(" ...)
	Raw  string
	Val  string
}

func lexSig(s string) (toks []sigTok, ok bool) {
	defer func() {
		if recover() != nil {
			ok = false
		}
	}()
	lex := &memefish.Lexer{File: &token.File{Buffer: s}}
	for {
		if err := lex.NextToken(); err != nil {
			return toks, false
		}
		if lex.Token.Kind == token.TokenEOF {
			return toks, true
		}
		// '>>' and '<>' are compared as their two halves: they close two type brackets / an empty
		// field list, and the tape spells them as two tokens
		switch lex.Token.Kind {
		case ">>":
			toks = append(toks, sigTok{">", ">", ""}, sigTok{">", ">", ""})
			continue
		case "<>":
			toks = append(toks, sigTok{"<", "<", ""}, sigTok{">", ">", ""})
			continue
		}
		toks = append(toks, sigTok{string(lex.Token.Kind), lex.Token.Raw, lex.Token.AsString})
	}
}

// sameToken compares a token of the canonical input with a token of SQL() under the comparison class
// the tape gives: reserved words / punctuation by kind, pseudo keywords case-insensitively,
// identifiers by name, literals by decoded value, numbers by spelling.
func sameToken(class string, a, b sigTok) bool {
	switch class {
	case "kw":
		return a.Kind == b.Kind
	case "pk":
		return b.Kind == string(token.TokenIdent) && a.Kind == b.Kind && char.EqualFold(a.Raw, b.Raw)
	case "tn": // a built-in type name written as a (possibly quoted) identifier: decoded name, case-insensitively
		return a.Kind == b.Kind && char.EqualFold(a.Val, b.Val)
	case "id", "param", "str", "bytes":
		return a.Kind == b.Kind && a.Val == b.Val
	case "int", "float":
		return a.Kind == b.Kind && strings.EqualFold(a.Raw, b.Raw)
	}
	return a.Kind == b.Kind && a.Raw == b.Raw
}

func sortedJoin(xs []string) string {
	ys := append([]string(nil), xs...)
	sort.Strings(ys)
	return strings.Join(ys, " ")
}
