// mfverif: conformance harness binding the TLA+ specifications under /verif/spec to the real
// memefish code built from /repo's working tree (build tag "verif").
//
// The harness has no oracle of its own: it records what the real code does (NDJSON, validated by
// TLC against the specifications) and replays behaviours that TLC generated, comparing the real
// result with the value the specification computed.
package main

import (
	"fmt"
	"os"
)

type command struct {
	name string
	help string
	run  func(args []string) error
}

var commands []command

func register(name, help string, run func(args []string) error) {
	commands = append(commands, command{name, help, run})
}

func main() {
	if len(os.Args) < 2 {
		usage()
		os.Exit(2)
	}
	for _, c := range commands {
		if c.name == os.Args[1] {
			if err := c.run(os.Args[2:]); err != nil {
				fmt.Fprintln(os.Stderr, "mfverif:", err)
				os.Exit(2)
			}
			return
		}
	}
	usage()
	os.Exit(2)
}

func usage() {
	fmt.Fprintln(os.Stderr, "usage: mfverif <command> [flags]")
	for _, c := range commands {
		fmt.Fprintf(os.Stderr, "  %-12s %s\n", c.name, c.help)
	}
}
