package main

import (
	"bufio"
	"encoding/json"
	"flag"
	"fmt"
	"math/rand"
	"os"
	"strconv"
	"strings"
)

// inputSource describes where the byte strings driven into the real code come from:
// exhaustive enumeration over an alphabet, seed-random strings, and/or a file of JSON strings
// (one JSON string or JSON array of byte values per line).
type inputSource struct {
	alpha   string
	maxLen  int
	minLen  int
	random  int
	rlen    int
	ralpha  string
	seed    int64
	infile  string
	prefix  string
	chunks  int
	outPref string
	curDir  string // "dir" attribute of the current input when the line is an object {"dir":..,"buf":[..]}
}

func (s *inputSource) flags(fs *flag.FlagSet) {
	fs.StringVar(&s.alpha, "alpha", "", "alphabet for exhaustive enumeration: comma separated byte values")
	fs.IntVar(&s.maxLen, "max", -1, "enumerate every string of length <= max over -alpha")
	fs.IntVar(&s.minLen, "min", 0, "minimum length for enumeration")
	fs.StringVar(&s.prefix, "prefix", "", "enumerate only strings starting with these bytes (comma separated values)")
	fs.IntVar(&s.random, "random", 0, "number of seed-random strings")
	fs.IntVar(&s.rlen, "rlen", 12, "maximum length of random strings")
	fs.StringVar(&s.ralpha, "ralpha", "", "alphabet for random strings (default: -alpha)")
	fs.Int64Var(&s.seed, "seed", 1, "seed for random strings")
	fs.StringVar(&s.infile, "in", "", "file with one JSON string / JSON byte array per line")
	fs.IntVar(&s.chunks, "chunks", 1, "number of output chunk files")
	fs.StringVar(&s.outPref, "out", "", "output prefix; chunk files are <out>.<k>.ndjson")
}

func parseAlpha(a string) ([]byte, error) {
	if a == "" {
		return nil, nil
	}
	var r []byte
	for _, f := range strings.Split(a, ",") {
		n, err := strconv.Atoi(strings.TrimSpace(f))
		if err != nil || n < 0 || n > 255 {
			return nil, fmt.Errorf("bad alphabet entry %q", f)
		}
		r = append(r, byte(n))
	}
	return r, nil
}

// each calls f for every input of the source; the count is returned.
func (s *inputSource) each(f func(in string)) (int, error) {
	n := 0
	alpha, err := parseAlpha(s.alpha)
	if err != nil {
		return 0, err
	}
	if s.maxLen >= 0 && len(alpha) > 0 {
		var gen func(prefix []byte)
		gen = func(prefix []byte) {
			if len(prefix) >= s.minLen {
				f(string(prefix))
				n++
			}
			if len(prefix) == s.maxLen {
				return
			}
			for _, c := range alpha {
				gen(append(prefix, c))
			}
		}
		pre, err := parseAlpha(s.prefix)
		if err != nil {
			return 0, err
		}
		start := make([]byte, 0, s.maxLen+1)
		start = append(start, pre...)
		gen(start)
	}
	if s.random > 0 {
		ra, err := parseAlpha(s.ralpha)
		if err != nil {
			return n, err
		}
		if len(ra) == 0 {
			ra = alpha
		}
		if len(ra) == 0 {
			for i := 0; i < 256; i++ {
				ra = append(ra, byte(i))
			}
		}
		rng := rand.New(rand.NewSource(s.seed))
		for i := 0; i < s.random; i++ {
			l := rng.Intn(s.rlen + 1)
			b := make([]byte, l)
			for j := range b {
				b[j] = ra[rng.Intn(len(ra))]
			}
			f(string(b))
			n++
		}
	}
	if s.infile != "" {
		fh, err := os.Open(s.infile)
		if err != nil {
			return n, err
		}
		defer fh.Close()
		sc := bufio.NewScanner(fh)
		sc.Buffer(make([]byte, 1<<20), 1<<28)
		for sc.Scan() {
			line := sc.Bytes()
			if len(line) == 0 {
				continue
			}
			in, dir, err := decodeInputDir(line)
			if err != nil {
				return n, err
			}
			s.curDir = dir
			f(in)
			n++
		}
		if err := sc.Err(); err != nil {
			return n, err
		}
	}
	return n, nil
}

func decodeInputDir(line []byte) (string, string, error) {
	if line[0] == '"' {
		// TLC writes ToJson output as a JSON string containing JSON
		var inner string
		if err := json.Unmarshal(line, &inner); err != nil {
			return "", "", err
		}
		if len(inner) > 0 && inner[0] == '{' {
			line = []byte(inner)
		} else {
			return inner, "", nil
		}
	}
	if line[0] == '{' {
		var o struct {
			Dir  string  `json:"dir"`
			Buf  []int   `json:"buf"`
			Text *string `json:"text"`
		}
		if err := json.Unmarshal(line, &o); err != nil {
			return "", "", err
		}
		if o.Text != nil {
			return *o.Text, o.Dir, nil
		}
		return bytesOf(o.Buf), o.Dir, nil
	}
	s, err := decodeInput(line)
	return s, "", err
}

func decodeInput(line []byte) (string, error) {
	if line[0] == '"' {
		var s string
		if err := json.Unmarshal(line, &s); err != nil {
			return "", err
		}
		return s, nil
	}
	var bs []int
	if err := json.Unmarshal(line, &bs); err != nil {
		return "", err
	}
	b := make([]byte, len(bs))
	for i, v := range bs {
		b[i] = byte(v)
	}
	return string(b), nil
}

// chunkWriter distributes records round-robin over chunk files (so that every chunk sees every
// region of the enumeration) and counts them.
type chunkWriter struct {
	files []*os.File
	ws    []*bufio.Writer
	n     int
}

func newChunkWriter(prefix string, chunks int) (*chunkWriter, error) {
	if chunks < 1 {
		chunks = 1
	}
	cw := &chunkWriter{}
	for k := 0; k < chunks; k++ {
		f, err := os.Create(fmt.Sprintf("%s.%d.ndjson", prefix, k))
		if err != nil {
			return nil, err
		}
		cw.files = append(cw.files, f)
		cw.ws = append(cw.ws, bufio.NewWriterSize(f, 1<<20))
	}
	return cw, nil
}

func (cw *chunkWriter) write(rec any) error {
	w := cw.ws[cw.n%len(cw.ws)]
	cw.n++
	enc := json.NewEncoder(w) // Encode appends the newline
	enc.SetEscapeHTML(false)
	return enc.Encode(rec)
}

func (cw *chunkWriter) close() error {
	for i, w := range cw.ws {
		if err := w.Flush(); err != nil {
			return err
		}
		if err := cw.files[i].Close(); err != nil {
			return err
		}
	}
	return nil
}

func ints(s string) []int {
	r := make([]int, len(s))
	for i := 0; i < len(s); i++ {
		r[i] = int(s[i])
	}
	return r
}
