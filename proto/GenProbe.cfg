CONSTANTS
  Budget = 3
  StartNT = "Select"
  OutFile = "/tmp/tlaprobe/gen.ndjson"
SPECIFICATION Spec
INVARIANT Emit
CHECK_DEADLOCK FALSE
