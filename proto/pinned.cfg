CONSTANTS N = 4  MaxDepth = 3  MaxErr = 3  EntryFetchProtected = FALSE
SPECIFICATION Spec
CONSTRAINT Constraint
INVARIANTS NoEscape ErrorContract BadExact BadInRange
PROPERTIES ErrMonotone RestoreKeepsErrors
CHECK_DEADLOCK FALSE
