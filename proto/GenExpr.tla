---- MODULE GenExpr ----
EXTENDS Integers, Sequences, TLC, Json, CSV, FiniteSets
CONSTANTS Budget, OutFile, StartNT
VARIABLES work, tape, budget
vars == <<work, tape, budget>>

T(k)        == [i |-> "T", k |-> k]
LEAF(f, cls, sp) == [i |-> "LEAF", f |-> f, cls |-> cls, sp |-> sp]
N(f, nt)    == [i |-> "N", f |-> f, nt |-> nt]
L(f, nt, sep, min) == [i |-> "L", f |-> f, nt |-> nt, sep |-> sep, min |-> min]
FLAG(f, its) == [i |-> "FLAG", f |-> f, its |-> its]
OPEN(n, f)  == [i |-> "OPEN", n |-> n, f |-> f]
CLOSE       == [i |-> "CLOSE"]
LOPEN(f)    == [i |-> "LOPEN", f |-> f]
LCLOSE      == [i |-> "LCLOSE"]
SET(f, v)   == [i |-> "SET", f |-> f, v |-> v]
Tmpl(n, its) == [node |-> n, items |-> its]

\* ---- GoogleSQL operator precedence (1 binds tightest) ----------------------
E(l) == "E" \o ToString(l)
BinOps(l) == CASE l = 3 -> <<"*", "/", "||">> [] l = 4 -> <<"+", "-">> [] l = 5 -> <<"<<", ">>">>
               [] l = 6 -> <<"&">> [] l = 7 -> <<"^">> [] l = 8 -> <<"|">>
               [] l = 11 -> <<"AND">> [] l = 12 -> <<"OR">> [] OTHER -> <<>>
CmpOps == <<"=", "!=", "<", "<=", ">", ">=", "LIKE", "NOT LIKE">>
CmpToks(op) == IF op = "NOT LIKE" THEN <<T("NOT"), T("LIKE")>> ELSE <<T(op)>>

Ident == Tmpl("Ident", <<LEAF("Name", "ident", "a")>>)
Atoms == << Ident,
            Tmpl("IntLiteral", <<LEAF("Value", "int", "1")>>),
            Tmpl("ParenExpr", <<T("("), N("Expr", E(12)), T(")")>>) >>
\* bases of a selector: anything at level 1 that is not an identifier/path (those make a Path)
SelBase == << Tmpl("ParenExpr", <<T("("), N("Expr", E(12)), T(")")>>),
              Tmpl("IndexExpr", <<N("Expr", E(1)), T("["), N("Index", "ExprArg"), T("]")>>) >>
Postfix == << Tmpl("IndexExpr", <<N("Expr", E(1)), T("["), N("Index", "ExprArg"), T("]")>>),
              Tmpl("SelectorExpr", <<N("Expr", "SelBase"), T("."), N("Ident", "Ident")>>) >>
\* a sign in front of an unsigned numeric literal is folded into the literal, so UnaryExpr +/- never has one as operand
NoNum(ts) == SelectSeq(ts, LAMBDA t : ~(t.node = "IntLiteral" /\ t.items[1].sp = "1"))
Unary(op, nt) == Tmpl("UnaryExpr", <<T(op), SET("Op", op), N("Expr", nt)>>)
Bin(l, op) == Tmpl("BinaryExpr", <<N("Left", E(l)), T(op), SET("Op", op), N("Right", E(l - 1))>>)
Cmp(op) == Tmpl("BinaryExpr", <<N("Left", E(8))>> \o CmpToks(op) \o <<SET("Op", op), N("Right", E(8))>>)
Comparisons == [j \in 1..Len(CmpOps) |-> Cmp(CmpOps[j])] \o
   << Tmpl("IsNullExpr", <<N("Left", E(8)), T("IS"), FLAG("Not", <<T("NOT")>>), T("NULL")>>),
      Tmpl("IsBoolExpr", <<N("Left", E(8)), T("IS"), FLAG("Not", <<T("NOT")>>), T("TRUE"), SET("Right", TRUE)>>),
      Tmpl("InExpr", <<N("Left", E(8)), FLAG("Not", <<T("NOT")>>), T("IN"), N("Right", "ValuesIn")>>),
      Tmpl("BetweenExpr", <<N("Left", E(8)), FLAG("Not", <<T("NOT")>>), T("BETWEEN"), N("RightStart", E(8)), T("AND"), N("RightEnd", E(8))>>) >>

RECURSIVE ExprTmpls(_)
ExprTmpls(l) ==
  IF l = 0 THEN Atoms
  ELSE ExprTmpls(l - 1) \o
       (CASE l = 1 -> Postfix
          [] l = 2 -> <<Tmpl("IntLiteral", <<LEAF("Value", "int", "-1")>>), Unary("-", "E2nonum"), Unary("+", "E2nonum"), Unary("~", E(2))>>
          [] l = 9 -> Comparisons
          [] l = 10 -> <<Unary("NOT", E(10))>>
          [] OTHER -> [j \in 1..Len(BinOps(l)) |-> Bin(l, BinOps(l)[j])])

Templates(nt) ==
  IF \E l \in 0..12 : nt = E(l) THEN ExprTmpls(CHOOSE l \in 0..12 : nt = E(l))
  ELSE CASE nt = "E2nonum" -> NoNum(ExprTmpls(2))
       [] nt = "SelBase" -> SelBase
       [] nt = "Ident" -> <<Ident>>
       [] nt = "ExprArg" -> << Tmpl("ExprArg", <<N("Expr", E(12))>>) >>
       [] nt = "ValuesIn" -> << Tmpl("ValuesInCondition", <<T("("), L("Exprs", E(12), ",", 1), T(")")>>) >>

IsChoice(it) == it.i \in {"N", "L", "FLAG"} /\ (it.i = "N" => Len(Templates(it.nt)) > 1)
Expand(f, t) == <<OPEN(t.node, f)>> \o t.items \o <<CLOSE>>
RECURSIVE Flush(_, _)
Flush(w, tp) ==
  IF w = <<>> THEN <<w, tp>>
  ELSE LET it == Head(w) IN
       IF IsChoice(it) THEN <<w, tp>>
       ELSE IF it.i = "N" THEN Flush(Expand(it.f, Templates(it.nt)[1]) \o Tail(w), tp)
       ELSE Flush(Tail(w), Append(tp, it))
RECURSIVE Rep(_, _, _)
Rep(it, n, k) == IF k > n THEN <<>> ELSE (IF k > 1 THEN <<T(it.sep)>> ELSE <<>>) \o <<N("", it.nt)>> \o Rep(it, n, k+1)

Init == LET r == Flush(<<N("", StartNT)>>, <<>>) IN work = r[1] /\ tape = r[2] /\ budget = Budget
Choose(w2, cost) == /\ cost <= budget
                    /\ LET r == Flush(w2, tape) IN work' = r[1] /\ tape' = r[2]
                    /\ budget' = budget - cost
Step == /\ work # <<>>
        /\ LET it == Head(work) rest == Tail(work) IN
           \/ /\ it.i = "N"
              /\ \E j \in 1..Len(Templates(it.nt)) : Choose(Expand(it.f, Templates(it.nt)[j]) \o rest, IF j = 1 THEN 0 ELSE 1)
           \/ /\ it.i = "L"
              /\ \E n \in it.min..(it.min+1) : Choose(<<LOPEN(it.f)>> \o Rep(it, n, 1) \o <<LCLOSE>> \o rest, n - it.min)
           \/ /\ it.i = "FLAG"
              /\ \/ Choose(<<SET(it.f, FALSE)>> \o rest, 0)
                 \/ Choose(<<SET(it.f, TRUE)>> \o it.its \o rest, 1)
Spec == Init /\ [][Step]_vars
Emit == work = <<>> => CSVWrite("%1$s", <<ToJson(tape)>>, OutFile)
====
