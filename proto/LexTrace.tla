---- MODULE LexTrace ----
EXTENDS Lexer, Json, CSV
CONSTANTS TraceFile
VARIABLES l

Trace == ndJsonDeserialize(TraceFile)

\* implementation record: [buf, toks: seq of [k, p, e, v, bs, nc], err: bool]
KindOK(s, t) == \/ s.k = t.k
                \/ s.k \in {"p1", "p2"} /\ t.k = "punct" /\ s.v = t.v
ValOK(s, t) == s.k \in {"<ident>", "<param>", "<string>", "<bytes>"} => s.v = t.v
TokOK(s, t) == KindOK(s, t) /\ s.p = t.p /\ s.e = t.e /\ ValOK(s, t) /\ s.nc = t.nc /\ (s.k = "<int>" => s.bs = t.bs)

Match(rec) ==
  LET sp == LexAll(rec.buf)
      n == Len(sp)
      last == sp[n] IN
  IF last.k = "<err>"
  THEN /\ rec.err
       /\ Len(rec.toks) = n - 1
       /\ \A i \in 1..(n - 1) : TokOK(sp[i], rec.toks[i])
  ELSE /\ ~rec.err
       /\ Len(rec.toks) = n
       /\ \A i \in 1..n : TokOK(sp[i], rec.toks[i])

Init == l = 1
Report(i) == CSVWrite("%1$s", <<i>>, "/tmp/lexproto/rejects.txt")
Next == l <= Len(Trace) /\ (IF Match(Trace[l]) THEN TRUE ELSE Report(l)) /\ l' = l + 1
Spec == Init /\ [][Next]_l
Accepted == TLCGet("stats").diameter - 1 = Len(Trace)
\* diagnostic
Stuck == IF l <= Len(Trace) /\ ~Match(Trace[l]) THEN PrintT(<<"REJECT", l, Trace[l], LexAll(Trace[l].buf)>>) ELSE TRUE
====
