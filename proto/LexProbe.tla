---- MODULE LexProbe ----
EXTENDS Integers, Sequences, TLC, Json, CSV
CONSTANTS Alphabet, MaxLen, OutFile
VARIABLES buf, phase, pos, toks

vars == <<buf, phase, pos, toks>>

IsDigit(c) == c >= 48 /\ c <= 57
IsIdStart(c) == (c >= 97 /\ c <= 122) \/ (c >= 65 /\ c <= 90) \/ c = 95
IsIdPart(c) == IsIdStart(c) \/ IsDigit(c)
IsSpace(c) == c = 32 \/ c = 10

N == Len(buf)
At(i) == IF i <= N THEN buf[i] ELSE -1

RECURSIVE ScanId(_)
ScanId(i) == IF i <= N /\ IsIdPart(buf[i]) THEN ScanId(i+1) ELSE i
RECURSIVE ScanDig(_)
ScanDig(i) == IF i <= N /\ IsDigit(buf[i]) THEN ScanDig(i+1) ELSE i
RECURSIVE ScanSp(_)
ScanSp(i) == IF i <= N /\ IsSpace(buf[i]) THEN ScanSp(i+1) ELSE i
RECURSIVE ScanLine(_)
ScanLine(i) == IF i > N THEN i ELSE IF buf[i] = 10 THEN i+1 ELSE ScanLine(i+1)
\* string: returns <<end, ok>>
RECURSIVE ScanStr(_)
ScanStr(i) == IF i > N THEN <<i, FALSE>>
              ELSE IF buf[i] = 34 THEN <<i+1, TRUE>>
              ELSE IF buf[i] = 10 THEN <<i, FALSE>>
              ELSE IF buf[i] = 92 THEN (IF i+1 > N THEN <<i+1, FALSE>> ELSE ScanStr(i+2))
              ELSE ScanStr(i+1)

\* trivia: spaces and -- comments
RECURSIVE SkipTrivia(_)
SkipTrivia(i) == LET j == ScanSp(i) IN
                 IF At(j) = 45 /\ At(j+1) = 45 THEN SkipTrivia(ScanLine(j)) ELSE j

Tok(i) == \* i = start after trivia; returns [kind, end]
  LET c == At(i) IN
  IF c = -1 THEN [kind |-> "eof", end |-> i]
  ELSE IF IsIdStart(c) THEN [kind |-> "ident", end |-> ScanId(i)]
  ELSE IF IsDigit(c) THEN LET e == ScanDig(i) IN
       IF e <= N /\ IsIdPart(buf[e]) THEN [kind |-> "error", end |-> e] ELSE [kind |-> "int", end |-> e]
  ELSE IF c = 34 THEN LET r == ScanStr(i+1) IN [kind |-> IF r[2] THEN "string" ELSE "error", end |-> r[1]]
  ELSE IF c = 45 THEN [kind |-> "-", end |-> i+1]
  ELSE IF c = 46 THEN [kind |-> ".", end |-> i+1]
  ELSE [kind |-> "error", end |-> i]

Init == buf = <<>> /\ phase = "gen" /\ pos = 1 /\ toks = <<>>
Extend == /\ phase = "gen" /\ Len(buf) < MaxLen
          /\ \E c \in Alphabet : buf' = Append(buf, c)
          /\ UNCHANGED <<phase, pos, toks>>
Start == phase = "gen" /\ phase' = "lex" /\ UNCHANGED <<buf, pos, toks>>
Step == /\ phase = "lex"
        /\ LET s == SkipTrivia(pos) t == Tok(s) IN
           /\ toks' = Append(toks, [k |-> t.kind, p |-> s - 1, e |-> t.end - 1])
           /\ pos' = t.end
           /\ phase' = IF t.kind \in {"eof", "error"} THEN "done" ELSE "lex"
        /\ UNCHANGED buf
Next == Extend \/ Start \/ Step
Spec == Init /\ [][Next]_vars

Tiling == \A i \in 1..Len(toks) : toks[i].p <= toks[i].e /\ (i > 1 => toks[i-1].e <= toks[i].p)
Emit == phase = "done" => CSVWrite("%1$s", <<ToJson([buf |-> buf, toks |-> toks])>>, OutFile)
====
