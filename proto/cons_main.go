package main

import (
	"bufio"
	"encoding/json"
	"fmt"
	"os"
	"reflect"
	"sort"
	"strings"

	"github.com/cloudspannerecosystem/memefish"
	"github.com/cloudspannerecosystem/memefish/ast"
	"github.com/cloudspannerecosystem/memefish/token"
)

type Ev struct {
	I   string      `json:"i"`
	K   string      `json:"k"`
	N   string      `json:"n"`
	F   string      `json:"f"`
	V   interface{} `json:"v"`
	Cls string      `json:"cls"`
	Sp  string      `json:"sp"`
}

// Tree is the generic projection shared by tape and real AST.
type Tree struct {
	T      string
	Scalar map[string]string
	Kids   []Kid
	First  int // first token index (tape) / Pos (real)
	Last   int // last token index (tape) / End (real)
}
type Kid struct {
	F    string
	One  *Tree
	Many []*Tree
	List bool
}

func (t *Tree) String() string {
	var b strings.Builder
	b.WriteString(t.T)
	var ks []string
	for k := range t.Scalar {
		ks = append(ks, k)
	}
	sort.Strings(ks)
	for _, k := range ks {
		fmt.Fprintf(&b, " %s=%s", k, t.Scalar[k])
	}
	for _, k := range t.Kids {
		if k.List {
			fmt.Fprintf(&b, " %s:[", k.F)
			for i, c := range k.Many {
				if i > 0 {
					b.WriteString(", ")
				}
				b.WriteString(c.String())
			}
			b.WriteString("]")
		} else if k.One != nil {
			fmt.Fprintf(&b, " %s:(%s)", k.F, k.One.String())
		}
	}
	return b.String()
}

type tok struct{ text string }

func fromTape(evs []Ev) (*Tree, []string) {
	var toks []string
	type frame struct {
		t    *Tree
		list *Kid
	}
	root := &Tree{T: "ROOT", Scalar: map[string]string{}}
	stack := []*frame{{t: root}}
	for _, e := range evs {
		top := stack[len(stack)-1]
		switch e.I {
		case "OPEN":
			n := &Tree{T: e.N, Scalar: map[string]string{}, First: len(toks), Last: -1}
			if top.list != nil {
				top.list.Many = append(top.list.Many, n)
			} else {
				top.t.Kids = append(top.t.Kids, Kid{F: e.F, One: n})
			}
			stack = append(stack, &frame{t: n})
		case "CLOSE":
			top.t.Last = len(toks) - 1
			stack = stack[:len(stack)-1]
		case "LOPEN":
			top.t.Kids = append(top.t.Kids, Kid{F: e.F, List: true})
			stack = append(stack, &frame{t: top.t, list: &top.t.Kids[len(top.t.Kids)-1]})
		case "LCLOSE":
			stack = stack[:len(stack)-1]
		case "T":
			toks = append(toks, e.K)
		case "LEAF":
			toks = append(toks, e.Sp)
			top.t.Scalar[e.F] = e.Sp
		case "SET":
			top.t.Scalar[e.F] = fmt.Sprint(e.V)
		}
	}
	return root.Kids[0].One, toks
}

var nodeType = reflect.TypeOf((*ast.Node)(nil)).Elem()
var posType = reflect.TypeOf(token.Pos(0))

func fromReal(n ast.Node) *Tree {
	v := reflect.ValueOf(n).Elem()
	t := &Tree{T: v.Type().Name(), Scalar: map[string]string{}, First: int(n.Pos()), Last: int(n.End())}
	for i := 0; i < v.NumField(); i++ {
		f := v.Type().Field(i)
		fv := v.Field(i)
		switch {
		case f.Type == posType:
		case f.Type.Implements(nodeType):
			if fv.IsNil() {
				continue
			}
			t.Kids = append(t.Kids, Kid{F: f.Name, One: fromReal(fv.Interface().(ast.Node))})
		case f.Type.Kind() == reflect.Slice && f.Type.Elem().Implements(nodeType):
			k := Kid{F: f.Name, List: true}
			for j := 0; j < fv.Len(); j++ {
				k.Many = append(k.Many, fromReal(fv.Index(j).Interface().(ast.Node)))
			}
			t.Kids = append(t.Kids, k)
		default:
			s := fmt.Sprint(fv.Interface())
			if f.Name == "Base" {
				continue
			}
			t.Scalar[f.Name] = s
		}
	}
	return t
}

// tape flags default to "false" when absent in real tree and vice versa
func norm(t *Tree) {
	for k, v := range t.Scalar {
		if v == "false" || v == "" {
			delete(t.Scalar, k)
		}
	}
	for _, k := range t.Kids {
		if k.One != nil {
			norm(k.One)
		}
		for _, c := range k.Many {
			norm(c)
		}
	}
}

func spans(t *Tree, starts, ends []int, out *[]string, tape bool) {
	if tape {
		*out = append(*out, fmt.Sprintf("%s[%d,%d)", t.T, starts[t.First], ends[t.Last]))
	} else {
		*out = append(*out, fmt.Sprintf("%s[%d,%d)", t.T, t.First, t.Last))
	}
	for _, k := range t.Kids {
		if k.One != nil {
			spans(k.One, starts, ends, out, tape)
		}
		for _, c := range k.Many {
			spans(c, starts, ends, out, tape)
		}
	}
}

func lexKinds(s string) []string {
	var r []string
	lex := &memefish.Lexer{File: &token.File{Buffer: s}}
	for {
		if err := lex.NextToken(); err != nil {
			return append(r, "<lexerr>")
		}
		if lex.Token.Kind == token.TokenEOF {
			return r
		}
		r = append(r, strings.ToUpper(lex.Token.Raw))
	}
}

func main() {
	f, _ := os.Open(os.Args[1])
	sc := bufio.NewScanner(f)
	sc.Buffer(make([]byte, 1<<20), 1<<26)
	n, bad := 0, map[string][]string{}
	add := func(cls, msg string) {
		bad[cls] = append(bad[cls], msg)
	}
	for sc.Scan() {
		var inner string
		if err := json.Unmarshal(sc.Bytes(), &inner); err != nil {
			panic(err)
		}
		var evs []Ev
		if err := json.Unmarshal([]byte(inner), &evs); err != nil {
			panic(err)
		}
		want, toks := fromTape(evs)
		var starts, ends []int
		var sb strings.Builder
		for i, t := range toks {
			if i > 0 {
				sb.WriteString(" ")
			}
			starts = append(starts, sb.Len())
			sb.WriteString(t)
			ends = append(ends, sb.Len())
		}
		src := sb.String()
		n++
		func() {
			defer func() {
				if r := recover(); r != nil {
					add("PANIC", fmt.Sprintf("%q: %v", src, r))
				}
			}()
			e, err := memefish.ParseExpr("", src)
			if err != nil {
				add("C08-reject", fmt.Sprintf("%q: %v", src, err))
				return
			}
			got := fromReal(e)
			norm(got)
			norm(want)
			if got.String() != want.String() {
				add("C07-shape", fmt.Sprintf("%q\n      want %s\n      got  %s", src, want, got))
				return
			}
			var ws, gs []string
			spans(want, starts, ends, &ws, true)
			spans(got, nil, nil, &gs, false)
			sort.Strings(ws)
			sort.Strings(gs)
			if strings.Join(ws, " ") != strings.Join(gs, " ") {
				add("C06-span", fmt.Sprintf("%q\n      want %v\n      got  %v", src, ws, gs))
			}
			sql := e.SQL()
			if strings.Join(lexKinds(sql), " ") != strings.Join(lexKinds(src), " ") {
				add("C02-tokens", fmt.Sprintf("%q -> %q", src, sql))
			}
			e2, err2 := memefish.ParseExpr("", sql)
			if err2 != nil {
				add("C01-reparse", fmt.Sprintf("%q -> %q: %v", src, sql, err2))
				return
			}
			g2 := fromReal(e2)
			norm(g2)
			if g2.String() != got.String() {
				add("C01-tree", fmt.Sprintf("%q -> %q", src, sql))
			}
		}()
	}
	fmt.Println("sentences:", n)
	var ks []string
	for k := range bad {
		ks = append(ks, k)
	}
	sort.Strings(ks)
	for _, k := range ks {
		fmt.Printf("== %s: %d\n", k, len(bad[k]))
		for i, m := range bad[k] {
			if i < 6 {
				fmt.Println("   ", m)
			}
		}
	}
}
