CONSTANTS TraceFile = "/tmp/lexproto/qtrace.ndjson"
SPECIFICATION Spec
POSTCONDITION Accepted
CHECK_DEADLOCK FALSE
