package main

import (
	"bufio"
	"encoding/json"
	"fmt"
	"os"
	"strconv"

	"github.com/cloudspannerecosystem/memefish"
)

type Piece struct {
	P int   `json:"p"`
	E int   `json:"e"`
	S []int `json:"s"`
}
type Rec struct {
	Buf    []int   `json:"buf"`
	Err    bool    `json:"err"`
	Pieces []Piece `json:"pieces"`
}

func ints(s string) []int {
	r := make([]int, len(s))
	for i := 0; i < len(s); i++ {
		r[i] = int(s[i])
	}
	return r
}

var panics int

func rec(s string) (r Rec) {
	r = Rec{Buf: ints(s), Pieces: []Piece{}}
	defer func() {
		if x := recover(); x != nil {
			panics++
			r.Err = true
			r.Pieces = []Piece{}
		}
	}()
	ps, err := memefish.SplitRawStatements("", s)
	if err != nil {
		r.Err = true
		return
	}
	for _, p := range ps {
		r.Pieces = append(r.Pieces, Piece{int(p.Pos), int(p.End), ints(p.Statement)})
	}
	return
}

func main() {
	alpha := os.Args[1]
	maxLen, _ := strconv.Atoi(os.Args[2])
	out := bufio.NewWriterSize(os.Stdout, 1<<20)
	defer out.Flush()
	enc := json.NewEncoder(out)
	n := 0
	var gen func(prefix []byte)
	gen = func(prefix []byte) {
		enc.Encode(rec(string(prefix)))
		n++
		if len(prefix) == maxLen {
			return
		}
		for i := 0; i < len(alpha); i++ {
			gen(append(prefix, alpha[i]))
		}
	}
	gen(nil)
	fmt.Fprintln(os.Stderr, "records:", n, "panics:", panics)
}
