package main

import (
	"bufio"
	"encoding/json"
	"os"

	"github.com/cloudspannerecosystem/memefish/token"
)

type Rec struct {
	Fn string `json:"fn"`
	S  []int  `json:"s"`
	Q  []int  `json:"q"`
}

func ints(s string) []int {
	r := make([]int, len(s))
	for i := 0; i < len(s); i++ {
		r[i] = int(s[i])
	}
	return r
}

func main() {
	out := bufio.NewWriterSize(os.Stdout, 1<<20)
	defer out.Flush()
	enc := json.NewEncoder(out)
	emit := func(s string) {
		enc.Encode(Rec{"str", ints(s), ints(token.QuoteSQLString(s))})
		enc.Encode(Rec{"bytes", ints(s), ints(token.QuoteSQLBytes([]byte(s)))})
		if s != "" {
			enc.Encode(Rec{"ident", ints(s), ints(token.QuoteSQLIdent(s))})
		}
	}
	emit("")
	for a := 0; a < 256; a++ {
		emit(string([]byte{byte(a)}))
	}
	if len(os.Args) > 1 {
		for a := 0; a < 256; a++ {
			for b := 0; b < 256; b++ {
				emit(string([]byte{byte(a), byte(b)}))
			}
		}
	}
}
