---- MODULE GenProbe ----
EXTENDS Integers, Sequences, TLC, Json, CSV, FiniteSets
CONSTANTS Budget, OutFile, StartNT
VARIABLES work, tape, budget

vars == <<work, tape, budget>>

\* ---- item constructors
T(k)        == [i |-> "T", k |-> k]
KW(w)       == [i |-> "KW", w |-> w]
LEAF(f, cls) == [i |-> "LEAF", f |-> f, cls |-> cls]
N(f, nt)    == [i |-> "N", f |-> f, nt |-> nt]
O(f, nt)    == [i |-> "O", f |-> f, nt |-> nt]
L(f, nt, sep, min) == [i |-> "L", f |-> f, nt |-> nt, sep |-> sep, min |-> min]
FLAG(f, its) == [i |-> "FLAG", f |-> f, its |-> its]
ENUM(f, alts) == [i |-> "ENUM", f |-> f, alts |-> alts]   \* alts: seq of [v, its]
OPEN(n, f)  == [i |-> "OPEN", n |-> n, f |-> f]
CLOSE       == [i |-> "CLOSE"]
LOPEN(f)    == [i |-> "LOPEN", f |-> f]
LCLOSE      == [i |-> "LCLOSE"]
SET(f, v)   == [i |-> "SET", f |-> f, v |-> v]

\* ---- grammar: nonterminal -> sequence of templates [node, items]; first template is the default
Tmpl(n, its) == [node |-> n, items |-> its]
BinOps(l) == CASE l = 4 -> <<"*", "/">> [] l = 5 -> <<"+", "-">> [] l = 10 -> <<"=", "<">> [] l = 12 -> <<"AND">> [] l = 13 -> <<"OR">>
Levels == {4, 5, 10, 12, 13}
ExprNT(l) == "Expr" \o ToString(l)
RECURSIVE SeqOfSet(_)
SeqOfSet(S) == IF S = {} THEN <<>> ELSE LET x == CHOOSE x \in S : \A y \in S : x <= y IN <<x>> \o SeqOfSet(S \ {x})

Atoms == << Tmpl("Ident", <<LEAF("Name", "ident")>>),
            Tmpl("IntLiteral", <<LEAF("Value", "int")>>),
            Tmpl("ParenExpr", <<T("("), N("Expr", ExprNT(13)), T(")")>>),
            Tmpl("CallExpr", <<N("Func", "Path"), T("("), FLAG("Distinct", <<T("DISTINCT")>>), L("Args", "ExprArg", ",", 0), T(")")>>) >>
BinTmpls(l) == [j \in 1..Len(BinOps(l)) |-> Tmpl("BinaryExpr", <<N("Left", ExprNT(l)), T(BinOps(l)[j]), SET("Op", BinOps(l)[j]), N("Right", ExprNT(l-1))>>)]
RECURSIVE ExprTmpls(_)
ExprTmpls(l) == IF l < 4 THEN Atoms
                ELSE ExprTmpls(l-1) \o (IF l \in Levels THEN BinTmpls(l) ELSE <<>>)

Templates(nt) ==
  IF \E l \in 0..13 : nt = ExprNT(l) THEN ExprTmpls(CHOOSE l \in 0..13 : nt = ExprNT(l))
  ELSE CASE nt = "Path" -> << Tmpl("Path", <<L("Idents", "Ident", ".", 1)>>) >>
       [] nt = "Ident" -> << Tmpl("Ident", <<LEAF("Name", "ident")>>) >>
       [] nt = "ExprArg" -> << Tmpl("ExprArg", <<N("Expr", ExprNT(13))>>) >>
       [] nt = "Select" -> << Tmpl("Select", <<T("SELECT"), ENUM("AllOrDistinct", << [v |-> "", its |-> <<>>], [v |-> "ALL", its |-> <<T("ALL")>>], [v |-> "DISTINCT", its |-> <<T("DISTINCT")>>] >>),
                                   L("Results", "SelectItem", ",", 1), O("From", "From"), O("Where", "Where")>>) >>
       [] nt = "SelectItem" -> << Tmpl("ExprSelectItem", <<N("Expr", ExprNT(13))>>), Tmpl("Star", <<T("*")>>) >>
       [] nt = "From" -> << Tmpl("From", <<T("FROM"), N("Source", "TableName")>>) >>
       [] nt = "TableName" -> << Tmpl("TableName", <<N("Table", "Ident")>>) >>
       [] nt = "Where" -> << Tmpl("Where", <<T("WHERE"), N("Expr", ExprNT(13))>>) >>

\* ---- engine: flush deterministic items
IsChoice(it) == it.i \in {"N", "O", "L", "FLAG", "ENUM"} /\ (it.i = "N" => Len(Templates(it.nt)) > 1)
RECURSIVE Flush(_, _)
Flush(w, tp) ==
  IF w = <<>> THEN <<w, tp>>
  ELSE LET it == Head(w) IN
       IF IsChoice(it) THEN <<w, tp>>
       ELSE IF it.i = "N" THEN LET t == Templates(it.nt)[1] IN Flush(<<OPEN(t.node, it.f)>> \o t.items \o <<CLOSE>> \o Tail(w), tp)
       ELSE Flush(Tail(w), Append(tp, it))

Expand(f, t) == <<OPEN(t.node, f)>> \o t.items \o <<CLOSE>>
RECURSIVE Rep(_, _, _)
Rep(it, n, k) == IF k > n THEN <<>> ELSE (IF k > 1 THEN <<T(it.sep)>> ELSE <<>>) \o <<N("", it.nt)>> \o Rep(it, n, k+1)

Init == LET r == Flush(<<N("", StartNT)>>, <<>>) IN work = r[1] /\ tape = r[2] /\ budget = Budget

Choose(w2, cost) == /\ cost <= budget
                    /\ LET r == Flush(w2, tape) IN work' = r[1] /\ tape' = r[2]
                    /\ budget' = budget - cost

Step == /\ work # <<>>
        /\ LET it == Head(work) rest == Tail(work) IN
           \/ /\ it.i = "N"
              /\ \E j \in 1..Len(Templates(it.nt)) : Choose(Expand(it.f, Templates(it.nt)[j]) \o rest, IF j = 1 THEN 0 ELSE 1)
           \/ /\ it.i = "O"
              /\ \/ Choose(rest, 0)
                 \/ Choose(<<N(it.f, it.nt)>> \o rest, 1)
           \/ /\ it.i = "L"
              /\ \E n \in it.min..(it.min+2) : Choose(<<LOPEN(it.f)>> \o Rep(it, n, 1) \o <<LCLOSE>> \o rest, n - it.min)
           \/ /\ it.i = "FLAG"
              /\ \/ Choose(<<SET(it.f, FALSE)>> \o rest, 0)
                 \/ Choose(<<SET(it.f, TRUE)>> \o it.its \o rest, 1)
           \/ /\ it.i = "ENUM"
              /\ \E j \in 1..Len(it.alts) : Choose(<<SET(it.f, it.alts[j].v)>> \o it.alts[j].its \o rest, IF j = 1 THEN 0 ELSE 1)
Next == Step
Spec == Init /\ [][Next]_vars
Emit == work = <<>> => CSVWrite("%1$s", <<ToJson(tape)>>, OutFile)
====
