CONSTANTS
  Alphabet = {97, 49, 32, 10, 34, 92, 45, 46, 120, 95}
  MaxLen = 5
  OutFile = "/tmp/tlaprobe/out.ndjson"
SPECIFICATION Spec
INVARIANTS Tiling Emit
CHECK_DEADLOCK FALSE
