CONSTANTS TraceFile = "/tmp/lexproto/trace.ndjson"
SPECIFICATION Spec
POSTCONDITION Accepted
CHECK_DEADLOCK FALSE
