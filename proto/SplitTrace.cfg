CONSTANTS TraceFile = "/tmp/lexproto/strace.ndjson"
SPECIFICATION Spec
POSTCONDITION Accepted
CHECK_DEADLOCK FALSE
