package main

import (
	"bufio"
	"encoding/json"
	"fmt"
	"os"
	"strconv"

	"github.com/cloudspannerecosystem/memefish"
	"github.com/cloudspannerecosystem/memefish/token"
)

type Tok struct {
	K  string `json:"k"`
	P  int    `json:"p"`
	E  int    `json:"e"`
	V  []int  `json:"v"`
	Bs int    `json:"bs"`
	Nc int    `json:"nc"`
}
type Rec struct {
	Buf  []int `json:"buf"`
	Toks []Tok `json:"toks"`
	Err  bool  `json:"err"`
}

func ints(s string) []int {
	r := make([]int, len(s))
	for i := 0; i < len(s); i++ {
		r[i] = int(s[i])
	}
	return r
}

var panics int

func lexRec(s string) (rec Rec) {
	rec = Rec{Buf: ints(s), Toks: []Tok{}}
	defer func() {
		if r := recover(); r != nil {
			panics++
			rec.Err = true
		}
	}()
	lex := &memefish.Lexer{File: &token.File{Buffer: s}}
	for {
		err := lex.NextToken()
		if err != nil {
			rec.Err = true
			return rec
		}
		t := lex.Token
		k := string(t.Kind)
		tk := Tok{K: k, P: int(t.Pos), E: int(t.End), V: []int{}, Bs: t.Base, Nc: len(t.Comments)}
		switch t.Kind {
		case token.TokenIdent, token.TokenParam, token.TokenString, token.TokenBytes:
			tk.V = ints(t.AsString)
		case token.TokenInt, token.TokenFloat, token.TokenEOF:
		default:
			if _, ok := token.KeywordsMap[t.Kind]; !ok {
				tk.K = "punct"
				tk.V = ints(k)
			}
		}
		rec.Toks = append(rec.Toks, tk)
		if t.Kind == token.TokenEOF {
			return rec
		}
	}
}

func main() {
	alpha := os.Args[1]
	maxLen, _ := strconv.Atoi(os.Args[2])
	out := bufio.NewWriterSize(os.Stdout, 1<<20)
	defer out.Flush()
	enc := json.NewEncoder(out)
	n := 0
	var gen func(prefix []byte)
	gen = func(prefix []byte) {
		enc.Encode(lexRec(string(prefix)))
		n++
		if len(prefix) == maxLen {
			return
		}
		for i := 0; i < len(alpha); i++ {
			gen(append(prefix, alpha[i]))
		}
	}
	gen(nil)
	fmt.Fprintln(os.Stderr, "records:", n, "panics:", panics)
}
