---- MODULE QuoteTrace ----
EXTENDS Lexer, Json, CSV
CONSTANTS TraceFile
VARIABLES l
Trace == ndJsonDeserialize(TraceFile)
Kind(fn) == CASE fn = "str" -> "<string>" [] fn = "bytes" -> "<bytes>" [] fn = "ident" -> "<ident>"
Match(rec) == LET sp == LexAll(rec.q) IN
  /\ Len(sp) = 2
  /\ sp[1].k = Kind(rec.fn) /\ sp[1].v = rec.s /\ sp[1].p = 0 /\ sp[1].e = Len(rec.q)
  /\ sp[2].k = "<eof>"
Report(i) == CSVWrite("%1$s", <<i>>, "/tmp/lexproto/qrejects.txt")
Init == l = 1
Next == l <= Len(Trace) /\ (IF Match(Trace[l]) THEN TRUE ELSE Report(l)) /\ l' = l + 1
Spec == Init /\ [][Next]_l
Accepted == TLCGet("stats").diameter - 1 = Len(Trace)
====
