CONSTANTS
  Budget = 3
  StartNT = "E12"
  OutFile = "/tmp/genproto/tapes.ndjson"
SPECIFICATION Spec
INVARIANT Emit
CHECK_DEADLOCK FALSE
