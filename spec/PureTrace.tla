------------------------------- MODULE PureTrace -------------------------------
(***************************************************************************)
(* C18: parsing is a pure function.  One record per process history:       *)
(*   [calls: Seq([args, res, shared])]                                     *)
(* args = digest of (entry point, input), res = digest of everything the   *)
(* call returned (tree with positions, SQL(), error list and messages),    *)
(* shared = the result shares a node (pointer) with the result of an       *)
(* earlier call of the history.  The history mixes a sequential baseline,  *)
(* ordered pairs of calls, repeated calls, results re-digested after later *)
(* parses, and calls replayed under TLC-generated schedules.               *)
(* Pure: memo[args] is single-valued over the whole history.               *)
(***************************************************************************)
EXTENDS Integers, Sequences, Json, CSV, TLC
CONSTANTS TraceFile, RejectFile
VARIABLES l
Trace == ndJsonDeserialize(TraceFile)

Pure(h) == /\ \A i, j \in 1..Len(h.calls) : h.calls[i].args = h.calls[j].args => h.calls[i].res = h.calls[j].res
           /\ \A i \in 1..Len(h.calls) : ~h.calls[i].shared
Report(i) == CSVWrite("%1$s,%2$s", <<i, "C18">>, RejectFile)
Init == l = 1
Next == l <= Len(Trace) /\ (IF Pure(Trace[l]) THEN TRUE ELSE Report(l)) /\ l' = l + 1
Spec == Init /\ [][Next]_l
Accepted == TLCGet("stats").diameter - 1 = Len(Trace)
==============================================================================
