--------------------------------- MODULE GDDL ---------------------------------
(***************************************************************************)
(* Reference grammar G, part 4: DDL.  From the Spanner data-definition-    *)
(* language page and the node documentation in ast/ast.go: schema,         *)
(* database, placement, locality group, proto bundle, table (columns,      *)
(* constraints, synonyms, interleave, row deletion policy), index, search  *)
(* and vector index, view, change stream, sequence, role / grant / revoke, *)
(* statistics, model, property graph, RENAME / DROP / ANALYZE.             *)
(* CREATE TABLE elements are generated in kind-grouped order (columns,     *)
(* constraints, synonyms), which is the order SQL() prints them in.        *)
(***************************************************************************)
EXTENDS GDML

DdlPool == << Same("n"), Same("Albums"), P("`order`", "order") >>
DdlId == Tmpl("Ident", <<LEAF("Name", "id", DdlPool)>>)
DdlPathT == << Tmpl("Path", <<L("Idents", "DdlId", ".", 1)>>) >>
IfNotExists == FLAG("IfNotExists", <<T("IF"), T("NOT"), T("EXISTS")>>)
IfExists == FLAG("IfExists", <<T("IF"), T("EXISTS")>>)
OrReplace == FLAG("OrReplace", <<T("OR"), KW("REPLACE")>>)
OptionsT == << Tmpl("Options", <<KW("OPTIONS"), T("("), L("Records", "OptionsDef", ",", 1), T(")")>>) >>
OptionsDefT == << Tmpl("OptionsDef", <<N("Name", "OptName"), T("="), N("Value", "OptValue")>>) >>
OptNameT == << Tmpl("Ident", <<LEAF("Name", "id", <<Same("version_retention_period"), Same("k")>>)>>) >>
OptValueT == << StringLit, IntLit, Tmpl("BoolLiteral", <<SET("Value", "true"), T("TRUE")>>), Tmpl("NullLiteral", <<T("NULL")>>),
                Tmpl("ArrayLiteral", <<POS("Array", FALSE), T("["), L("Values", "StringLit", ",", 1), T("]")>>) >>
IntLitOnly == <<IntLit>>
OnDeleteE == ENUM("OnDelete", <<A("", <<>>), A("ON DELETE CASCADE", <<T("ON"), KW("DELETE"), KW("CASCADE")>>), A("ON DELETE NO ACTION", <<T("ON"), KW("DELETE"), T("NO"), KW("ACTION")>>)>>)

\* ---- schema types ------------------------------------------------------------------
ScalarSchemaNames == <<"INT64", "BOOL", "FLOAT32", "FLOAT64", "DATE", "TIMESTAMP", "NUMERIC", "JSON", "TOKENLIST">>
ScalarSchema(n) == Tmpl("ScalarSchemaType", <<KW(n), SET("Name", n)>>)
Sized(n) == Tmpl("SizedSchemaType", <<KW(n), SET("Name", n), T("("), ENUM("Max", <<A("true", <<KW("MAX")>>), A("false", <<N("Size", "IntValue")>>)>>), T(")")>>)
SchemaItemT == [j \in 1..Len(ScalarSchemaNames) |-> ScalarSchema(ScalarSchemaNames[j])] \o
               << Sized("STRING"), Sized("BYTES"), Tmpl("NamedType", <<L("Path", "TypeNameId", ".", 1)>>) >>
SchemaTypeT == SchemaItemT \o
  << Tmpl("ArraySchemaType", <<T("ARRAY"), T("<"), N("Item", "SchemaItem"), T(">")>>),
     Tmpl("ArraySchemaType", <<T("ARRAY"), T("<"), N("Item", "SchemaItem"), T(">"), T("("), L("NamedArgs", "NamedArg", ",", 1), T(")")>>) >>

\* ---- columns, constraints -------------------------------------------------------------
SeqParamT == << Tmpl("BitReversedPositive", <<KW("BIT_REVERSED_POSITIVE")>>),
                Tmpl("SkipRange", <<KW("SKIP"), T("RANGE"), N("Min", "IntLitOnly"), T(","), N("Max", "IntLitOnly")>>),
                Tmpl("StartCounterWith", <<KW("START"), KW("COUNTER"), T("WITH"), N("Counter", "IntLitOnly")>>) >>
DefaultSemT == <<
  Tmpl("ColumnDefaultExpr", <<T("DEFAULT"), T("("), N("Expr", Expr), T(")")>>),
  Tmpl("GeneratedColumnExpr", <<T("AS"), T("("), N("Expr", Expr), T(")"), OPT(<<KW("STORED"), POS("Stored", TRUE)>>)>>),
  Tmpl("IdentityColumn", <<KW("GENERATED"), T("BY"), T("DEFAULT"), T("AS"), KW("IDENTITY"), POS("Rparen", FALSE)>>),
  Tmpl("IdentityColumn", <<KW("GENERATED"), T("BY"), T("DEFAULT"), T("AS"), KW("IDENTITY"), POS("Rparen", TRUE), T("("), L("Params", "SeqParam", "", 1), T(")")>>),
  Tmpl("AutoIncrement", <<KW("AUTO_INCREMENT")>>) >>
ColumnDefT == << Tmpl("ColumnDef", <<N("Name", "DdlId"), N("Type", "SchemaType"), FLAG("NotNull", <<T("NOT"), T("NULL")>>),
                    O("DefaultSemantics", "DefaultSem"), OPT(<<KW("HIDDEN"), POS("Hidden", TRUE)>>),
                    FLAG("PrimaryKey", <<KW("PRIMARY"), KW("KEY")>>), O("Options", "Options")>>) >>
ColumnListP == <<T("("), L("Columns", "DdlId", ",", 1), T(")")>>
ConstraintT == <<
  Tmpl("ForeignKey", <<KW("FOREIGN"), KW("KEY"), T("("), L("Columns", "DdlId", ",", 1), T(")"), KW("REFERENCES"), N("ReferenceTable", "DdlPath"),
                       T("("), L("ReferenceColumns", "DdlId", ",", 1), T(")"), OnDeleteE,
                       ENUM("Enforcement", <<A("", <<>>), A("ENFORCED", <<KW("ENFORCED")>>), A("NOT ENFORCED", <<T("NOT"), KW("ENFORCED")>>)>>)>>),
  Tmpl("Check", <<KW("CHECK"), T("("), N("Expr", Expr), T(")")>>) >>
TableConstraintT == << Tmpl("TableConstraint", <<N("Constraint", "Constraint")>>),
                       Tmpl("TableConstraint", <<KW("CONSTRAINT"), N("Name", "DdlId"), N("Constraint", "Constraint")>>) >>
SynonymT == << Tmpl("Synonym", <<KW("SYNONYM"), T("("), N("Name", "DdlId"), T(")")>>) >>
IndexKeyT == << Tmpl("IndexKey", <<N("Name", "DdlId"), ENUM("Dir", <<A("", <<POS("DirPos", FALSE)>>), A("ASC", <<POS("DirPos", TRUE), T("ASC")>>), A("DESC", <<POS("DirPos", TRUE), T("DESC")>>)>>)>>) >>
RowDeletionPolicyT == << Tmpl("RowDeletionPolicy", <<KW("ROW"), KW("DELETION"), KW("POLICY"), T("("), KW("OLDER_THAN"), T("("), N("ColumnName", "DdlId"), T(","),
                              T("INTERVAL"), N("NumDays", "IntLitOnly"), KW("DAY"), T(")"), T(")")>>) >>
ClusterT == << Tmpl("Cluster", <<T(","), KW("INTERLEAVE"), T("IN"), FLAG("Enforced", <<KW("PARENT")>>), N("TableName", "DdlPath"), OnDeleteE>>) >>
CreateRdpT == << Tmpl("CreateRowDeletionPolicy", <<T(","), N("RowDeletionPolicy", "RowDeletionPolicy")>>) >>
CommaOptionsT == << Tmpl("Options", <<KW("OPTIONS"), T("("), L("Records", "OptionsDef", ",", 1), T(")")>>) >>

\* CREATE TABLE: elements kind-grouped; the list separators between the groups are plain commas
TableElems(cols, cons, syn) ==
  <<LOPEN("Columns"), LI("ColumnDef", ",", cols), LCLOSE>> \o
  (IF cons THEN <<T(","), LOPEN("TableConstraints"), LI("TableConstraint", ",", 1), LCLOSE>> ELSE <<>>) \o
  (IF syn THEN <<T(","), LOPEN("Synonyms"), LI("Synonym", ",", 1), LCLOSE>> ELSE <<>>)
CreateTableWith(cons, syn) ==
  Tmpl("CreateTable", <<T("CREATE"), KW("TABLE"), IfNotExists, N("Name", "DdlPath"), T("(")>> \o TableElems(1, cons, syn) \o
       <<VAR(<< <<>>, <<TN(",")>> >>), T(")"),
         OPT(<<KW("PRIMARY"), KW("KEY"), T("("), L("PrimaryKeys", "IndexKey", ",", 0), T(")"), POS("PrimaryKeyRparen", TRUE)>>),
         O("Cluster", "Cluster"), O("RowDeletionPolicy", "CreateRdp"), OPT(<<T(","), N("Options", "Options")>>)>>)

\* ---- ALTER TABLE ------------------------------------------------------------------------
IdentityAlterationT == << Tmpl("RestartCounterWith", <<KW("RESTART"), KW("COUNTER"), T("WITH"), N("Counter", "IntLitOnly")>>),
                          Tmpl("SetSkipRange", <<T("SET"), N("SkipRange", "SkipRangeOnly")>>),
                          Tmpl("SetNoSkipRange", <<T("SET"), N("NoSkipRange", "NoSkipRange")>>) >>
SkipRangeOnlyT == << SeqParamT[2] >>
NoSkipRangeT == << Tmpl("NoSkipRange", <<T("NO"), KW("SKIP"), T("RANGE")>>) >>
ColumnDefaultOnlyT == << DefaultSemT[1] >>
ColumnAlterationT == <<
  Tmpl("AlterColumnType", <<N("Type", "SchemaType"), FLAG("NotNull", <<T("NOT"), T("NULL")>>), O("DefaultExpr", "ColumnDefaultOnly")>>),
  Tmpl("AlterColumnSetOptions", <<T("SET"), N("Options", "Options")>>),
  Tmpl("AlterColumnSetDefault", <<T("SET"), N("DefaultExpr", "ColumnDefaultOnly")>>),
  Tmpl("AlterColumnDropDefault", <<KW("DROP"), T("DEFAULT")>>),
  Tmpl("AlterColumnAlterIdentity", <<KW("ALTER"), KW("IDENTITY"), N("Alteration", "IdentityAlteration")>>) >>
AddSynonymT == << Tmpl("AddSynonym", <<KW("ADD"), KW("SYNONYM"), N("Name", "DdlId")>>) >>
TableAlterationT == <<
  Tmpl("AddColumn", <<KW("ADD"), KW("COLUMN"), IfNotExists, N("Column", "ColumnDef")>>),
  Tmpl("AddTableConstraint", <<KW("ADD"), N("TableConstraint", "TableConstraint")>>),
  Tmpl("AddRowDeletionPolicy", <<KW("ADD"), N("RowDeletionPolicy", "RowDeletionPolicy")>>),
  AddSynonymT[1],
  Tmpl("DropSynonym", <<KW("DROP"), KW("SYNONYM"), N("Name", "DdlId")>>),
  Tmpl("RenameTo", <<KW("RENAME"), T("TO"), N("Name", "DdlId"), OPT(<<T(","), N("AddSynonym", "AddSynonym")>>)>>),
  Tmpl("DropColumn", <<KW("DROP"), KW("COLUMN"), N("Name", "DdlId")>>),
  Tmpl("DropConstraint", <<KW("DROP"), KW("CONSTRAINT"), N("Name", "DdlId")>>),
  Tmpl("DropRowDeletionPolicy", <<KW("DROP"), KW("ROW"), KW("DELETION"), KW("POLICY")>>),
  Tmpl("ReplaceRowDeletionPolicy", <<KW("REPLACE"), N("RowDeletionPolicy", "RowDeletionPolicy")>>),
  Tmpl("SetOnDelete", <<T("SET"), ENUM("OnDelete", <<A("ON DELETE CASCADE", <<T("ON"), KW("DELETE"), KW("CASCADE")>>), A("ON DELETE NO ACTION", <<T("ON"), KW("DELETE"), T("NO"), KW("ACTION")>>)>>)>>),
  Tmpl("SetInterleaveIn", <<T("SET"), KW("INTERLEAVE"), T("IN"), FLAG("Enforced", <<KW("PARENT")>>), N("TableName", "DdlPath"), OnDeleteE>>),
  Tmpl("AlterTableSetOptions", <<T("SET"), N("Options", "Options")>>),
  Tmpl("AlterColumn", <<KW("ALTER"), KW("COLUMN"), N("Name", "DdlId"), N("Alteration", "ColumnAlteration")>>) >>

\* ---- indexes -----------------------------------------------------------------------------
StoringT == << Tmpl("Storing", <<KW("STORING"), T("("), L("Columns", "DdlId", ",", 1), T(")")>>) >>
InterleaveInT == << Tmpl("InterleaveIn", <<T(","), KW("INTERLEAVE"), T("IN"), N("TableName", "DdlId")>>) >>
IndexAlterationT == << Tmpl("AddStoredColumn", <<KW("ADD"), KW("STORED"), KW("COLUMN"), N("Name", "DdlId")>>),
                       Tmpl("DropStoredColumn", <<KW("DROP"), KW("STORED"), KW("COLUMN"), N("Name", "DdlId")>>) >>

\* ---- change streams, privileges, models, graphs ------------------------------------------------
ChangeStreamForT == << Tmpl("ChangeStreamForAll", <<T("FOR"), T("ALL")>>),
                       Tmpl("ChangeStreamForTables", <<T("FOR"), L("Tables", "ChangeStreamForTable", ",", 1)>>) >>
ChangeStreamForTableT == << Tmpl("ChangeStreamForTable", <<N("TableName", "DdlId")>>),
                            Tmpl("ChangeStreamForTable", <<N("TableName", "DdlId"), T("("), L("Columns", "DdlId", ",", 0), T(")")>>) >>
ChangeStreamAlterationT == << Tmpl("ChangeStreamSetFor", <<T("SET"), N("For", "ChangeStreamFor")>>),
                              Tmpl("ChangeStreamDropForAll", <<KW("DROP"), T("FOR"), T("ALL")>>),
                              Tmpl("ChangeStreamSetOptions", <<T("SET"), N("Options", "Options")>>) >>
ColsOpt == OPT(<<T("("), L("Columns", "DdlId", ",", 1), T(")")>>)
TablePrivilegeT == << Tmpl("SelectPrivilege", <<T("SELECT"), ColsOpt>>), Tmpl("InsertPrivilege", <<KW("INSERT"), ColsOpt>>),
                      Tmpl("UpdatePrivilege", <<KW("UPDATE"), ColsOpt>>), Tmpl("DeletePrivilege", <<KW("DELETE")>>) >>
PrivilegeT == <<
  Tmpl("PrivilegeOnTable", <<L("Privileges", "TablePrivilege", ",", 1), T("ON"), KW("TABLE"), L("Names", "DdlId", ",", 1)>>),
  Tmpl("SelectPrivilegeOnChangeStream", <<T("SELECT"), T("ON"), KW("CHANGE"), KW("STREAM"), L("Names", "DdlId", ",", 1)>>),
  Tmpl("SelectPrivilegeOnView", <<T("SELECT"), T("ON"), KW("VIEW"), L("Names", "DdlId", ",", 1)>>),
  Tmpl("ExecutePrivilegeOnTableFunction", <<KW("EXECUTE"), T("ON"), KW("TABLE"), KW("FUNCTION"), L("Names", "DdlId", ",", 1)>>),
  Tmpl("RolePrivilege", <<KW("ROLE"), L("Names", "DdlId", ",", 1)>>) >>
ModelColumnT == << Tmpl("CreateModelColumn", <<N("Name", "DdlId"), N("DataType", "SchemaType"), O("Options", "Options")>>) >>
ModelIOT == << Tmpl("CreateModelInputOutput", <<KW("INPUT"), T("("), L("InputColumns", "ModelColumn", ",", 1), T(")"),
                                                KW("OUTPUT"), T("("), L("OutputColumns", "ModelColumn", ",", 1), T(")")>>) >>
ProtoTypesT == << Tmpl("ProtoBundleTypes", <<T("("), L("Types", "NamedTypeOnly", ",", 1), T(")")>>) >>
PgColsT == << Tmpl("PropertyGraphColumnNameList", <<T("("), L("ColumnNameList", "DdlId", ",", 1), T(")")>>) >>
PgElementKeyT == << Tmpl("PropertyGraphElementKey", <<KW("KEY"), N("Keys", "PgCols")>>) >>
PgKeysT == << Tmpl("PropertyGraphNodeElementKey", <<N("Key", "PgElementKey")>>),
              Tmpl("PropertyGraphEdgeElementKeys", <<O("Element", "PgElementKey"),
                   N("Source", "PgSource"), N("Destination", "PgDest")>>) >>
PgSourceT == << Tmpl("PropertyGraphSourceKey", <<KW("SOURCE"), KW("KEY"), N("Keys", "PgCols"), KW("REFERENCES"), N("ElementReference", "DdlId"), O("ReferenceColumns", "PgCols")>>) >>
PgDestT == << Tmpl("PropertyGraphDestinationKey", <<KW("DESTINATION"), KW("KEY"), N("Keys", "PgCols"), KW("REFERENCES"), N("ElementReference", "DdlId"), O("ReferenceColumns", "PgCols")>>) >>
PgDerivedT == << Tmpl("PropertyGraphDerivedProperty", <<N("Expr", Expr), OPT(<<T("AS"), N("Alias", "DdlId")>>)>>) >>
PgPropsT == << Tmpl("PropertyGraphNoProperties", <<T("NO"), KW("PROPERTIES")>>),
               Tmpl("PropertyGraphPropertiesAre", <<KW("PROPERTIES"), VAR(<< <<KW("ARE")>>, <<>> >>), T("ALL"), KW("COLUMNS"), OPT(<<T("EXCEPT"), N("ExceptColumns", "PgCols")>>)>>),
               Tmpl("PropertyGraphDerivedPropertyList", <<KW("PROPERTIES"), T("("), L("DerivedProperties", "PgDerived", ",", 1), T(")")>>) >>
PgLabelT == << Tmpl("PropertyGraphElementLabelLabelName", <<KW("LABEL"), N("Name", "DdlId")>>),
               Tmpl("PropertyGraphElementLabelDefaultLabel", <<T("DEFAULT"), KW("LABEL")>>) >>
PgLabelPropsT == << Tmpl("PropertyGraphLabelAndProperties", <<N("Label", "PgLabel"), O("Properties", "PgProps")>>) >>
PgLabelsOrPropsT == << Tmpl("PropertyGraphSingleProperties", <<N("Properties", "PgProps")>>),
                       Tmpl("PropertyGraphLabelAndPropertiesList", <<L("LabelAndProperties", "PgLabelProps", "", 1)>>) >>
PgElementT == << Tmpl("PropertyGraphElement", <<N("Name", "DdlId"), OPT(<<T("AS"), N("Alias", "DdlId")>>), O("Keys", "PgKeys"), O("Properties", "PgLabelsOrProps")>>) >>
PgElementListT == << Tmpl("PropertyGraphElementList", <<T("("), L("Elements", "PgElement", ",", 1), T(")")>>) >>
PgContentT == << Tmpl("PropertyGraphContent", <<N("NodeTables", "PgNodeTables"), O("EdgeTables", "PgEdgeTables")>>) >>
PgNodeTablesT == << Tmpl("PropertyGraphNodeTables", <<KW("NODE"), KW("TABLES"), N("Tables", "PgElementList")>>) >>
PgEdgeTablesT == << Tmpl("PropertyGraphEdgeTables", <<KW("EDGE"), KW("TABLES"), N("Tables", "PgElementList")>>) >>

\* ---- statements ------------------------------------------------------------------------------
DDLT == <<
  Tmpl("CreateSchema", <<T("CREATE"), KW("SCHEMA"), N("Name", "DdlId")>>),
  Tmpl("DropSchema", <<KW("DROP"), KW("SCHEMA"), N("Name", "DdlId")>>),
  Tmpl("CreateDatabase", <<T("CREATE"), KW("DATABASE"), N("Name", "DdlId")>>),
  Tmpl("AlterDatabase", <<KW("ALTER"), KW("DATABASE"), N("Name", "DdlId"), T("SET"), N("Options", "Options")>>),
  Tmpl("CreateLocalityGroup", <<T("CREATE"), KW("LOCALITY"), T("GROUP"), N("Name", "DdlId"), O("Options", "Options")>>),
  Tmpl("AlterLocalityGroup", <<KW("ALTER"), KW("LOCALITY"), T("GROUP"), N("Name", "DdlId"), T("SET"), N("Options", "Options")>>),
  Tmpl("DropLocalityGroup", <<KW("DROP"), KW("LOCALITY"), T("GROUP"), N("Name", "DdlId")>>),
  Tmpl("CreatePlacement", <<T("CREATE"), KW("PLACEMENT"), N("Name", "DdlId"), O("Options", "Options")>>),
  Tmpl("CreateProtoBundle", <<T("CREATE"), T("PROTO"), KW("BUNDLE"), N("Types", "ProtoTypes")>>),
  Tmpl("AlterProtoBundle", <<KW("ALTER"), T("PROTO"), KW("BUNDLE"),
        OPT(<<OPEN("AlterProtoBundleInsert", "Insert"), KW("INSERT"), N("Types", "ProtoTypes"), CLOSE>>),
        OPT(<<OPEN("AlterProtoBundleUpdate", "Update"), KW("UPDATE"), N("Types", "ProtoTypes"), CLOSE>>),
        OPT(<<OPEN("AlterProtoBundleDelete", "Delete"), KW("DELETE"), N("Types", "ProtoTypes"), CLOSE>>)>>),
  Tmpl("DropProtoBundle", <<KW("DROP"), T("PROTO"), KW("BUNDLE")>>),
  CreateTableWith(FALSE, FALSE), CreateTableWith(TRUE, FALSE), CreateTableWith(FALSE, TRUE), CreateTableWith(TRUE, TRUE),
  Tmpl("AlterTable", <<KW("ALTER"), KW("TABLE"), N("Name", "DdlPath"), N0("TableAlteration", "TableAlteration")>>),
  Tmpl("DropTable", <<KW("DROP"), KW("TABLE"), IfExists, N("Name", "DdlPath")>>),
  Tmpl("RenameTable", <<KW("RENAME"), KW("TABLE"), L("Tos", "RenameTableTo", ",", 1)>>),
  Tmpl("CreateIndex", <<T("CREATE"), FLAG("Unique", <<KW("UNIQUE")>>), FLAG("NullFiltered", <<KW("NULL_FILTERED")>>), KW("INDEX"), IfNotExists,
        N("Name", "DdlPath"), T("ON"), N("TableName", "DdlPath"), T("("), L("Keys", "IndexKey", ",", 1), T(")"),
        O("Storing", "Storing"), O("InterleaveIn", "InterleaveIn"), O("Options", "Options")>>),
  Tmpl("AlterIndex", <<KW("ALTER"), KW("INDEX"), N("Name", "DdlPath"), N("IndexAlteration", "IndexAlteration")>>),
  Tmpl("DropIndex", <<KW("DROP"), KW("INDEX"), IfExists, N("Name", "DdlPath")>>),
  Tmpl("CreateSearchIndex", <<T("CREATE"), KW("SEARCH"), KW("INDEX"), N("Name", "DdlId"), T("ON"), N("TableName", "DdlId"),
        T("("), L("TokenListPart", "DdlId", ",", 1), T(")"), O("Storing", "Storing"),
        OPT(<<T("PARTITION"), T("BY"), L("PartitionColumns", "DdlId", ",", 1)>>), O("OrderBy", "OrderByCols"), O("Where", "Where"),
        O("Interleave", "InterleaveIn"), O("Options", "Options")>>),
  Tmpl("AlterSearchIndex", <<KW("ALTER"), KW("SEARCH"), KW("INDEX"), N("Name", "DdlId"), N("IndexAlteration", "IndexAlteration")>>),
  Tmpl("DropSearchIndex", <<KW("DROP"), KW("SEARCH"), KW("INDEX"), IfExists, N("Name", "DdlId")>>),
  Tmpl("CreateVectorIndex", <<T("CREATE"), KW("VECTOR"), KW("INDEX"), IfNotExists, N("Name", "DdlId"), T("ON"), N("TableName", "DdlId"),
        T("("), N("ColumnName", "DdlId"), T(")"), O("Where", "WhereNotNull"), N("Options", "Options")>>),
  Tmpl("DropVectorIndex", <<KW("DROP"), KW("VECTOR"), KW("INDEX"), IfExists, N("Name", "DdlId")>>),
  Tmpl("CreateView", <<T("CREATE"), OrReplace, KW("VIEW"), N("Name", "DdlPath"), KW("SQL"), KW("SECURITY"),
        ENUM("SecurityType", <<A("INVOKER", <<KW("INVOKER")>>), A("DEFINER", <<KW("DEFINER")>>)>>), T("AS"), N("Query", "QueryExpr")>>),
  Tmpl("DropView", <<KW("DROP"), KW("VIEW"), N("Name", "DdlPath")>>),
  Tmpl("CreateChangeStream", <<T("CREATE"), KW("CHANGE"), KW("STREAM"), N("Name", "DdlId"), O("For", "ChangeStreamFor"), O("Options", "Options")>>),
  Tmpl("AlterChangeStream", <<KW("ALTER"), KW("CHANGE"), KW("STREAM"), N("Name", "DdlId"), N0("ChangeStreamAlteration", "ChangeStreamAlteration")>>),
  Tmpl("DropChangeStream", <<KW("DROP"), KW("CHANGE"), KW("STREAM"), N("Name", "DdlId")>>),
  Tmpl("CreateSequence", <<T("CREATE"), KW("SEQUENCE"), IfNotExists, N("Name", "DdlPath"), L("Params", "SeqParam", "", 0), O("Options", "Options")>>),
  Tmpl("AlterSequence", <<KW("ALTER"), KW("SEQUENCE"), N("Name", "DdlPath"), T("SET"), N("Options", "Options")>>),
  Tmpl("AlterSequence", <<KW("ALTER"), KW("SEQUENCE"), N("Name", "DdlPath"), N("RestartCounterWith", "RestartOnly")>>),
  Tmpl("AlterSequence", <<KW("ALTER"), KW("SEQUENCE"), N("Name", "DdlPath"), N("SkipRange", "SkipRangeOnly")>>),
  Tmpl("AlterSequence", <<KW("ALTER"), KW("SEQUENCE"), N("Name", "DdlPath"), N("NoSkipRange", "NoSkipRange")>>),
  Tmpl("DropSequence", <<KW("DROP"), KW("SEQUENCE"), IfExists, N("Name", "DdlPath")>>),
  Tmpl("CreateRole", <<T("CREATE"), KW("ROLE"), N("Name", "DdlId")>>),
  Tmpl("DropRole", <<KW("DROP"), KW("ROLE"), N("Name", "DdlId")>>),
  Tmpl("Grant", <<KW("GRANT"), N0("Privilege", "Privilege"), T("TO"), KW("ROLE"), L("Roles", "DdlId", ",", 1)>>),
  Tmpl("Revoke", <<KW("REVOKE"), N0("Privilege", "Privilege"), T("FROM"), KW("ROLE"), L("Roles", "DdlId", ",", 1)>>),
  Tmpl("AlterStatistics", <<KW("ALTER"), KW("STATISTICS"), N("Name", "DdlId"), T("SET"), N("Options", "Options")>>),
  Tmpl("Analyze", <<KW("ANALYZE")>>),
  Tmpl("CreateModel", <<T("CREATE"), OrReplace, KW("MODEL"), IfNotExists, N("Name", "DdlId"), O("InputOutput", "ModelIO"), KW("REMOTE"), O("Options", "Options")>>),
  Tmpl("AlterModel", <<KW("ALTER"), KW("MODEL"), IfExists, N("Name", "DdlId"), T("SET"), N("Options", "Options")>>),
  Tmpl("DropModel", <<KW("DROP"), KW("MODEL"), IfExists, N("Name", "DdlId")>>),
  Tmpl("CreatePropertyGraph", <<T("CREATE"), OrReplace, KW("PROPERTY"), KW("GRAPH"), IfNotExists, N("Name", "DdlId"), N("Content", "PgContent")>>),
  Tmpl("DropPropertyGraph", <<KW("DROP"), KW("PROPERTY"), KW("GRAPH"), IfExists, N("Name", "DdlId")>>)
>>
RenameTableToT == << Tmpl("RenameTableTo", <<N("Old", "DdlId"), T("TO"), N("New", "DdlId")>>) >>
RestartOnlyT == << IdentityAlterationT[1] >>
OrderByColsT == << Tmpl("OrderBy", <<T("ORDER"), T("BY"), L("Items", "OrderByCol", ",", 1)>>) >>
OrderByColT == << Tmpl("OrderByItem", <<N("Expr", "DdlIdExpr"), ENUM("Dir", <<A("", <<POS("DirPos", FALSE)>>), A("DESC", <<POS("DirPos", TRUE), T("DESC")>>)>>)>>) >>
WhereNotNullT == << Tmpl("Where", <<T("WHERE"), N("Expr", "IsNotNull")>>) >>
IsNotNullT == << Tmpl("IsNullExpr", <<N("Left", "DdlIdExpr"), T("IS"), SET("Not", TRUE), T("NOT"), T("NULL")>>) >>

\* ---- focused start symbols: the clause under study is a FREE choice, so a small budget reaches every alternative ----
FocusT(nt) ==
  CASE nt = "FE_Arg" -> << Tmpl("CallExpr", <<N("Func", "FuncPath"), T("("), LOPEN("Args"), N0("", "Arg"), LCLOSE, T(")")>>) >>
    [] nt = "FE_Mod" -> << Tmpl("CallExpr", <<N("Func", "FuncPath"), T("("), L("Args", "ExprArg", ",", 1), N0("NullHandling", "NullHandling"), N0("Having", "HavingModifier"), T(")")>>) >>
    [] nt = "FD_Col" -> << Tmpl("CreateTable", <<T("CREATE"), KW("TABLE"), N("Name", "DdlPath"), T("("), LOPEN("Columns"),
                              OPEN("ColumnDef", ""), N("Name", "DdlId"), N0("Type", "SchemaType"), N0("DefaultSemantics", "DefaultSem"), CLOSE, LCLOSE, T(")"),
                              KW("PRIMARY"), KW("KEY"), T("("), L("PrimaryKeys", "IndexKey", ",", 1), T(")")>>) >>
    [] nt = "FD_Seq" -> << Tmpl("CreateSequence", <<T("CREATE"), KW("SEQUENCE"), N("Name", "DdlPath"), LOPEN("Params"), N0("", "SeqParam"), N0("", "SeqParam"), LCLOSE, O("Options", "Options")>>) >>
    [] nt = "FD_Ident" -> << Tmpl("AlterTable", <<KW("ALTER"), KW("TABLE"), N("Name", "DdlPath"), OPEN("AlterColumn", "TableAlteration"), KW("ALTER"), KW("COLUMN"), N("Name", "DdlId"),
                                OPEN("AlterColumnAlterIdentity", "Alteration"), KW("ALTER"), KW("IDENTITY"), N0("Alteration", "IdentityAlteration"), CLOSE, CLOSE>>) >>
    [] nt = "FD_PG" -> << Tmpl("CreatePropertyGraph", <<T("CREATE"), KW("PROPERTY"), KW("GRAPH"), N("Name", "DdlId"),
                             OPEN("PropertyGraphContent", "Content"), OPEN("PropertyGraphNodeTables", "NodeTables"), KW("NODE"), KW("TABLES"),
                             OPEN("PropertyGraphElementList", "Tables"), T("("), LOPEN("Elements"),
                             OPEN("PropertyGraphElement", ""), N("Name", "DdlId"), N0("Keys", "PgKeys"), N0("Properties", "PgLabelsOrProps"), CLOSE,
                             LCLOSE, T(")"), CLOSE, CLOSE, CLOSE>>) >>
    [] nt = "FD_PGProps" -> << Tmpl("CreatePropertyGraph", <<T("CREATE"), KW("PROPERTY"), KW("GRAPH"), N("Name", "DdlId"),
                             OPEN("PropertyGraphContent", "Content"), OPEN("PropertyGraphNodeTables", "NodeTables"), KW("NODE"), KW("TABLES"),
                             OPEN("PropertyGraphElementList", "Tables"), T("("), LOPEN("Elements"),
                             OPEN("PropertyGraphElement", ""), N("Name", "DdlId"),
                             OPEN("PropertyGraphLabelAndPropertiesList", "Properties"), LOPEN("LabelAndProperties"),
                             OPEN("PropertyGraphLabelAndProperties", ""), N0("Label", "PgLabel"), N0("Properties", "PgProps"), CLOSE, LCLOSE, CLOSE, CLOSE,
                             LCLOSE, T(")"), CLOSE, CLOSE, CLOSE>>) >>
    [] nt = "FD_CS" -> << Tmpl("CreateChangeStream", <<T("CREATE"), KW("CHANGE"), KW("STREAM"), N("Name", "DdlId"),
                             OPEN("ChangeStreamForTables", "For"), T("FOR"), LOPEN("Tables"), N0("", "ChangeStreamForTable"), T(","), N0("", "ChangeStreamForTable"),
                             OPT(<<T(","), N0("", "ChangeStreamForTable")>>), LCLOSE, CLOSE, O("Options", "Options")>>) >>
    [] nt = "QS_Table" -> << Tmpl("QueryStatement", <<OPEN("Select", "Query"), T("SELECT"), L("Results", "SelectItem", ",", 1),
                                OPEN("From", "From"), T("FROM"), N0("Source", "SimpleTableFull"), CLOSE, CLOSE>>) >>
    [] nt = "FM_Return" -> << Tmpl("Delete", <<KW("DELETE"), T("FROM"), N("TableName", "DmlTablePath"), N("Where", "Where"),
                                OPEN("ThenReturn", "ThenReturn"), T("THEN"), KW("RETURN"), OPEN("WithAction", "WithAction"), T("WITH"), KW("ACTION"), O("Alias", "AsAliasReq2"), CLOSE,
                                L("Items", "ReturnItem", ",", 1), CLOSE>>) >>
    [] OTHER -> <<>>

DDLTemplates(nt) ==
  IF FocusT(nt) # <<>> THEN FocusT(nt) ELSE
  CASE nt = "DDL" -> DDLT [] nt = "DdlId" -> <<DdlId>> [] nt = "DdlIdExpr" -> <<DdlId>> [] nt = "DdlPath" -> DdlPathT
    [] nt = "Options" -> OptionsT [] nt = "OptionsDef" -> OptionsDefT [] nt = "OptName" -> OptNameT [] nt = "OptValue" -> OptValueT [] nt = "IntLitOnly" -> IntLitOnly
    [] nt = "SchemaItem" -> SchemaItemT [] nt = "SchemaType" -> SchemaTypeT [] nt = "SeqParam" -> SeqParamT [] nt = "DefaultSem" -> DefaultSemT
    [] nt = "ColumnDef" -> ColumnDefT [] nt = "Constraint" -> ConstraintT [] nt = "TableConstraint" -> TableConstraintT [] nt = "Synonym" -> SynonymT
    [] nt = "IndexKey" -> IndexKeyT [] nt = "RowDeletionPolicy" -> RowDeletionPolicyT [] nt = "Cluster" -> ClusterT [] nt = "CreateRdp" -> CreateRdpT
    [] nt = "IdentityAlteration" -> IdentityAlterationT [] nt = "SkipRangeOnly" -> SkipRangeOnlyT [] nt = "NoSkipRange" -> NoSkipRangeT
    [] nt = "ColumnDefaultOnly" -> ColumnDefaultOnlyT [] nt = "ColumnAlteration" -> ColumnAlterationT [] nt = "AddSynonym" -> AddSynonymT
    [] nt = "TableAlteration" -> TableAlterationT [] nt = "Storing" -> StoringT [] nt = "InterleaveIn" -> InterleaveInT [] nt = "IndexAlteration" -> IndexAlterationT
    [] nt = "ChangeStreamFor" -> ChangeStreamForT [] nt = "ChangeStreamForTable" -> ChangeStreamForTableT [] nt = "ChangeStreamAlteration" -> ChangeStreamAlterationT
    [] nt = "TablePrivilege" -> TablePrivilegeT [] nt = "Privilege" -> PrivilegeT [] nt = "ModelColumn" -> ModelColumnT [] nt = "ModelIO" -> ModelIOT
    [] nt = "ProtoTypes" -> ProtoTypesT [] nt = "PgCols" -> PgColsT [] nt = "PgElementKey" -> PgElementKeyT [] nt = "PgKeys" -> PgKeysT
    [] nt = "PgSource" -> PgSourceT [] nt = "PgDest" -> PgDestT [] nt = "PgDerived" -> PgDerivedT [] nt = "PgProps" -> PgPropsT [] nt = "PgLabel" -> PgLabelT
    [] nt = "PgLabelProps" -> PgLabelPropsT [] nt = "PgLabelsOrProps" -> PgLabelsOrPropsT [] nt = "PgElement" -> PgElementT [] nt = "PgElementList" -> PgElementListT
    [] nt = "PgContent" -> PgContentT [] nt = "PgNodeTables" -> PgNodeTablesT [] nt = "PgEdgeTables" -> PgEdgeTablesT
    [] nt = "RenameTableTo" -> RenameTableToT [] nt = "RestartOnly" -> RestartOnlyT [] nt = "OrderByCols" -> OrderByColsT [] nt = "OrderByCol" -> OrderByColT
    [] nt = "WhereNotNull" -> WhereNotNullT [] nt = "IsNotNull" -> IsNotNullT
    [] OTHER -> <<>>
==============================================================================
