---------------------------- MODULE PosLangTrace ----------------------------
(***************************************************************************)
(* C19: Pos()/End() equal the position expression published in the node    *)
(* documentation.  Denotational semantics of the POS language (EBNF at the *)
(* top of ast/ast.go) over an expression tree and a field environment:     *)
(*   A || B        first valid position (invalid = -1)                     *)
(*   X + n ...     invalid stays invalid, otherwise the sum                *)
(*   N.pos, N.end  position of a node, invalid if the node is nil          *)
(*   (A ?? B)      first non-nil node;  Xs[i], Xs[$]: nil if Xs is empty   *)
(*   len(S), (B ? i : j)                                                   *)
(* One record per node of every parsed tree: [kind, posx, endx, env, pos,  *)
(* end (observed), ipos, iend (the repository's interpreter)].  TLC        *)
(* evaluates posx/endx under env and compares with all four.               *)
(***************************************************************************)
EXTENDS Integers, Sequences, Json, CSV, TLC
CONSTANTS TraceFile, RejectFile
VARIABLES l
Trace == ndJsonDeserialize(TraceFile)

NilNode == [nil |-> TRUE, pos |-> -1, end |-> -1]
RECURSIVE EvalInt(_, _), EvalNode(_, _), EvalPos(_, _), FirstNode(_, _, _), FirstPos(_, _, _), SumInts(_, _, _)
EvalInt(e, env) ==
  CASE e.op = "int" -> e.v
    [] e.op = "len" -> env[e.name].len
    [] e.op = "cond" -> IF env[e.name].b THEN EvalInt(e.a, env) ELSE EvalInt(e.b, env)
EvalNode(e, env) ==
  CASE e.op = "nvar" -> env[e.name]
    [] e.op = "nidx" -> LET s == env[e.name].items IN IF Len(s) = 0 THEN NilNode ELSE s[EvalInt(e.i, env) + 1]
    [] e.op = "nlast" -> LET s == env[e.name].items IN IF Len(s) = 0 THEN NilNode ELSE s[Len(s)]
    [] e.op = "nchoice" -> FirstNode(e.args, 1, env)
FirstNode(args, k, env) == IF k > Len(args) THEN NilNode
                           ELSE LET n == EvalNode(args[k], env) IN IF n.nil THEN FirstNode(args, k + 1, env) ELSE n
SumInts(ns, k, env) == IF k > Len(ns) THEN 0 ELSE EvalInt(ns[k], env) + SumInts(ns, k + 1, env)
EvalPos(e, env) ==
  CASE e.op = "posvar" -> env[e.name].v
    [] e.op = "npos" -> LET n == EvalNode(e.node, env) IN IF n.nil THEN -1 ELSE n.pos
    [] e.op = "nend" -> LET n == EvalNode(e.node, env) IN IF n.nil THEN -1 ELSE n.end
    [] e.op = "add" -> LET x == EvalPos(e.x, env) IN IF x < 0 THEN -1 ELSE x + SumInts(e.ns, 1, env)
    [] e.op = "choice" -> FirstPos(e.args, 1, env)
FirstPos(args, k, env) == IF k > Len(args) THEN -1
                          ELSE LET p == EvalPos(args[k], env) IN IF p < 0 THEN FirstPos(args, k + 1, env) ELSE p

PosOK(r) == /\ EvalPos(r.posx, r.env) = r.pos /\ EvalPos(r.endx, r.env) = r.end
            /\ r.ipos = r.pos /\ r.iend = r.end
Report(i) == CSVWrite("%1$s,%2$s", <<i, "C19">>, RejectFile)
Init == l = 1
Next == l <= Len(Trace) /\ (IF PosOK(Trace[l]) THEN TRUE ELSE Report(l)) /\ l' = l + 1
Spec == Init /\ [][Next]_l
Accepted == TLCGet("stats").diameter - 1 = Len(Trace)
==============================================================================
