------------------------------- MODULE Lexer -------------------------------
(* Layer 3 of the lexer specification: the state machine over LexerCore's step function
   (NextToken / AgainAtEof / Clone / Restore) with the C13 invariants on the specification's own
   stream.  Model-checked and used as behaviour generator by LexGen. *)
EXTENDS LexerCore

\* ===========================================================================
\* Layer 3: state machine.
\* ===========================================================================
VARIABLES buf, st, status, snaps, out
lexvars == <<buf, st, status, snaps, out>>

LexInit(b) == /\ buf = b /\ st = InitState /\ status = "run" /\ snaps = {} /\ out = <<>>

NextToken ==
  /\ status = "run"
  /\ LET r == StepTok(buf, st) IN
     IF r.k = "<err>" THEN /\ status' = "err" /\ out' = Append(out, r) /\ UNCHANGED <<buf, st, snaps>>
     ELSE /\ st' = StepState(buf, st)
          /\ out' = Append(out, r)
          /\ status' = IF r.k = "<eof>" THEN "eof" ELSE "run"
          /\ UNCHANGED <<buf, snaps>>

\* <eof> is absorbing: further calls keep returning the same empty <eof> token at Len(buf).
AgainAtEof ==
  /\ status = "eof"
  /\ LET r == StepTok(buf, st) IN /\ r.k = "<eof>" /\ r.p = Len(buf) /\ r.e = Len(buf)
                                  /\ st' = StepState(buf, st)
  /\ UNCHANGED <<buf, status, snaps, out>>

Clone   == status = "run" /\ Cardinality(snaps) < 2 /\ snaps' = snaps \cup {st} /\ UNCHANGED <<buf, st, status, out>>
\* Rewinding to a snapshot kills the snapshots taken after it (they belong to abandoned work).
Restore == /\ status = "run"
           /\ \E s \in snaps : /\ st' = s /\ out' = SelectSeq(out, LAMBDA t : t.e <= s.pos)
                               /\ snaps' = {x \in snaps : x.pos <= s.pos}
           /\ UNCHANGED <<buf, status>>

\* ---- C13 invariants on the specification's own stream ----------------------
RECURSIVE TileFrom(_, _, _)
\* concatenation, for tokens i..n of o, of comments (space+raw), space, raw
TileFrom(b, o, i) ==
  IF i > Len(o) THEN <<>>
  ELSE LET t == o[i]
           prevEnd == IF i = 1 THEN 0 ELSE o[i-1].e
           CommentText[j \in 0..Len(t.cs)] == IF j = 0 THEN <<>> ELSE CommentText[j-1] \o Slice(b, t.cs[j].sp, t.cs[j].e)
           spFrom == IF t.cs = <<>> THEN prevEnd ELSE t.cs[Len(t.cs)].e
       IN CommentText[Len(t.cs)] \o Slice(b, spFrom, t.p) \o Slice(b, t.p, t.e) \o TileFrom(b, o, i + 1)

Tiling    == status = "eof" => TileFrom(buf, out, 1) = buf
Monotone  == \A i \in 1..Len(out) : /\ out[i].p <= out[i].e
                                    /\ (i > 1 => out[i-1].e <= out[i].p)
                                    /\ \A j \in 1..Len(out[i].cs) : out[i].cs[j].sp <= out[i].cs[j].p /\ out[i].cs[j].p < out[i].cs[j].e /\ out[i].cs[j].e <= out[i].p
NonEmptyUnlessEof == \A i \in 1..Len(out) : out[i].k \notin {"<eof>", "<err>"} => out[i].p < out[i].e
OneEof    == \A i \in 1..Len(out) : out[i].k = "<eof>" => (i = Len(out) /\ status = "eof")
InBuffer  == \A i \in 1..Len(out) : 0 <= out[i].p /\ out[i].e <= Len(buf)
\* dot-identifier state: entered exactly by a '.' that follows an identifier, a parameter, ')' or ']'
IsDotTok(t) == t.k = "p1" /\ t.v = <<46>>
DotModeSound == st.dot => /\ IsDotTok(st.tok)
                          /\ \E i \in 2..Len(out) : out[i] = st.tok /\ (out[i-1].k \in {"<ident>", "<param>"} \/ (out[i-1].k = "p1" /\ out[i-1].v \in {<<41>>, <<93>>}))
\* in dot mode an identifier-like run is one <ident> token, whatever it spells (keyword, digits)
DotIdentTotal == \A i \in 3..Len(out) :
                   (IsDotTok(out[i-1]) /\ (out[i-2].k \in {"<ident>", "<param>"} \/ (out[i-2].k = "p1" /\ out[i-2].v \in {<<41>>, <<93>>}))
                    /\ out[i].p < out[i].e /\ IsIdPart(buf[out[i].p + 1])) => out[i].k = "<ident>"
=============================================================================
