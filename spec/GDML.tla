--------------------------------- MODULE GDML ---------------------------------
(***************************************************************************)
(* Reference grammar G, part 3: DML (INSERT / UPDATE / DELETE with THEN    *)
(* RETURN) and CALL, from the Spanner DML-syntax page and the node          *)
(* documentation.  INTO and DELETE's FROM are noise words (canonical:      *)
(* INSERT INTO, DELETE FROM).  A statement hint is allowed before DML.      *)
(***************************************************************************)
EXTENDS GQuery

DmlTablePath == << Tmpl("Path", <<L("Idents", "TableId", ".", 1)>>) >>
DefaultExprT == << Tmpl("DefaultExpr", <<SET("Default", FALSE), POS("DefaultPos", FALSE), N("Expr", Expr)>>),
                   Tmpl("DefaultExpr", <<SET("Default", TRUE), POS("DefaultPos", TRUE), T("DEFAULT")>>) >>
ValuesRowT == << Tmpl("ValuesRow", <<T("("), L("Exprs", "DefaultExpr", ",", 1), T(")")>>) >>
InsertInputT == << Tmpl("ValuesInput", <<KW("VALUES"), L("Rows", "ValuesRow", ",", 1)>>),
                   Tmpl("SubQueryInput", <<N("Query", "QueryExpr")>>) >>
WithActionT == << Tmpl("WithAction", <<T("WITH"), KW("ACTION"), O("Alias", "AsAliasReq2")>>) >>
AsAliasReq2T == << Tmpl("AsAlias", <<POS("As", TRUE), T("AS"), N("Alias", "AliasId")>>) >>
\* the items of THEN RETURN must not begin with WITH (that is WITH ACTION), so G keeps them to names and '*'
ReturnItemT == << Tmpl("ExprSelectItem", <<N("Expr", "NameExpr")>>), Tmpl("Alias", <<N("Expr", "NameExpr"), N("As", "AsAliasOpt")>>),
                  Tmpl("Star", <<T("*"), O("Except", "StarExcept"), O("Replace", "StarReplace")>>) >>
ThenReturnT == << Tmpl("ThenReturn", <<T("THEN"), KW("RETURN"), O("WithAction", "WithAction"), L("Items", "ReturnItem", ",", 1)>>) >>
UpdateItemT == << Tmpl("UpdateItem", <<L("Path", "Ident", ".", 1), T("="), N("DefaultExpr", "DefaultExpr")>>) >>
InsertT == Tmpl("Insert", <<KW("INSERT"),
                            ENUM("InsertOrType", <<A("", <<>>), A("UPDATE", <<T("OR"), KW("UPDATE")>>), A("IGNORE", <<T("OR"), T("IGNORE")>>)>>),
                            VAR(<< <<T("INTO")>>, <<>> >>), N("TableName", "DmlTablePath"), O("TableHint", "Hint"),
                            T("("), L("Columns", "Ident", ",", 1), T(")"), N("Input", "InsertInput"), O("ThenReturn", "ThenReturn")>>)
DeleteT == Tmpl("Delete", <<KW("DELETE"), VAR(<< <<T("FROM")>>, <<>> >>), N("TableName", "DmlTablePath"), O("TableHint", "Hint"),
                            O("As", "AsAliasOpt"), N("Where", "Where"), O("ThenReturn", "ThenReturn")>>)
UpdateT == Tmpl("Update", <<KW("UPDATE"), N("TableName", "DmlTablePath"), O("TableHint", "Hint"), O("As", "AsAliasOpt"),
                            T("SET"), L("Updates", "UpdateItem", ",", 1), N("Where", "Where"), O("ThenReturn", "ThenReturn")>>)
\* a DML statement with a statement hint: the hint is the first child of the statement node
Hinted(t) == Tmpl(t.node, <<N("Hint", "Hint")>> \o t.items)
DMLT == <<InsertT, UpdateT, DeleteT, Hinted(InsertT), Hinted(UpdateT), Hinted(DeleteT)>>
CallT == << Tmpl("Call", <<KW("CALL"), N("Name", "TVFName"), T("("), L("Args", "TVFArg", ",", 0), T(")")>>) >>

DMLTemplates(nt) ==
  CASE nt = "DmlTablePath" -> DmlTablePath [] nt = "DefaultExpr" -> DefaultExprT [] nt = "ValuesRow" -> ValuesRowT
    [] nt = "InsertInput" -> InsertInputT [] nt = "WithAction" -> WithActionT [] nt = "AsAliasReq2" -> AsAliasReq2T
    [] nt = "ThenReturn" -> ThenReturnT [] nt = "ReturnItem" -> ReturnItemT [] nt = "UpdateItem" -> UpdateItemT
    [] nt = "DML" -> DMLT [] nt = "Call" -> CallT
    [] OTHER -> <<>>
==============================================================================
