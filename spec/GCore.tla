-------------------------------- MODULE GCore --------------------------------
(***************************************************************************)
(* Item constructors of the reference grammar G (DESIGN.md 1.2).           *)
(*                                                                         *)
(* A template is [node, items]; an item is one of                          *)
(*   T(k)            reserved word or punctuation, compared by kind        *)
(*   KW(w)           pseudo keyword: an identifier token compared          *)
(*                   case-insensitively on its raw spelling                *)
(*   LEAF(f,c,pool)  terminal of class c (id int float str bytes param)    *)
(*                   whose spelling is chosen from pool; sets scalar f     *)
(*   N(f,nt)         child node from nonterminal nt (first template free,  *)
(*                   every other one costs 1)                              *)
(*   N0(f,nt)        child node, every template free (statement kinds)     *)
(*   O(f,nt)         optional child (present costs 1)                      *)
(*   L(f,nt,sep,min) list of min .. min+2 children separated by sep        *)
(*   LS / LI         the same with a separator given as items / inside an  *)
(*                   explicit LOPEN(f) .. LCLOSE pair                      *)
(*   FLAG(f,items)   boolean field: items present <=> TRUE (costs 1)       *)
(*   ENUM(f,alts)    enumerated scalar: alts[j] = [v, items]               *)
(*   VAR(alts)       surface variant WITHOUT tree effect; alts[1] is the   *)
(*                   canonical spelling SQL() has to print (C02)           *)
(*   SET(f,v)        scalar field expectation                              *)
(*   POS(f,b)        position-validity expectation (f valid <=> b)         *)
(*   SEQ(items)      grouping                                              *)
(* The tape (output) is the flat sequence of OPEN/CLOSE/LOPEN/LCLOSE/T/SET/ *)
(* POS events from which the harness derives, without grammar knowledge,   *)
(* the input text, the expected tree, every node's token span and the      *)
(* canonical token sequence.                                               *)
(***************************************************************************)
EXTENDS Integers, Sequences

T(k)              == [i |-> "T", c |-> "kw", s |-> k, surf |-> TRUE, canon |-> TRUE]
KW(w)             == [i |-> "T", c |-> "pk", s |-> w, surf |-> TRUE, canon |-> TRUE]
TN(k)             == [i |-> "T", c |-> "nz", s |-> k, surf |-> TRUE, canon |-> TRUE]   \* noise token (tolerated trailing comma): never part of a span
TOK(c, s)         == [i |-> "T", c |-> c, s |-> s, surf |-> TRUE, canon |-> TRUE]
LEAF(f, c, pool)  == [i |-> "LEAF", f |-> f, c |-> c, pool |-> pool]
N(f, nt)          == [i |-> "N", f |-> f, nt |-> nt, free |-> FALSE]
N0(f, nt)         == [i |-> "N", f |-> f, nt |-> nt, free |-> TRUE]
O(f, nt)          == [i |-> "O", f |-> f, nt |-> nt]
L(f, nt, sep, mn) == [i |-> "L", f |-> f, nt |-> nt, sep |-> IF sep = "" THEN <<>> ELSE <<[i |-> "T", c |-> "kw", s |-> sep, surf |-> TRUE, canon |-> TRUE]>>, min |-> mn, open |-> TRUE]
LS(f, nt, sep, mn) == [i |-> "L", f |-> f, nt |-> nt, sep |-> sep, min |-> mn, open |-> TRUE]     \* separator given as items
LI(nt, sep, mn)   == [i |-> "L", f |-> "", nt |-> nt, sep |-> IF sep = "" THEN <<>> ELSE <<[i |-> "T", c |-> "kw", s |-> sep, surf |-> TRUE, canon |-> TRUE]>>, min |-> mn, open |-> FALSE]  \* list items inside an explicit LOPEN .. LCLOSE
FLAG(f, its)      == [i |-> "FLAG", f |-> f, its |-> its]
ENUM(f, alts)     == [i |-> "ENUM", f |-> f, alts |-> alts]
VAR(alts)         == [i |-> "VAR", alts |-> alts]
OPT(its)          == [i |-> "OPT", its |-> its]              \* optional token group without a field of its own
SET(f, v)         == [i |-> "SET", f |-> f, v |-> v]
POS(f, b)         == [i |-> "POS", f |-> f, valid |-> b]
OPEN(n, f)        == [i |-> "OPEN", n |-> n, f |-> f]
CLOSE             == [i |-> "CLOSE"]
LOPEN(f)          == [i |-> "LOPEN", f |-> f]
LCLOSE            == [i |-> "LCLOSE"]
Tmpl(n, its)      == [node |-> n, items |-> its]
A(v, its)         == [v |-> v, items |-> its]
\* pool entries: spelling + decoded value
P(s, v)           == [s |-> s, v |-> v]
Same(s)           == [s |-> s, v |-> s]
==============================================================================
