----------------------------- MODULE ComposeTrace -----------------------------
(* C11: ParseStatements / ParseDDLs / ParseDMLs == SplitRawStatements + single-statement parse.
   One record per list input:
     [buf, lexok, listnil (list call returned nil error), listpan, nlist (statements returned),
      ld: Seq(digest of the i-th returned statement, positions included),
      pieces: Seq([p, e, empty (no token inside), nil (stand-alone call returned nil error), pan,
                   d (digest of the stand-alone tree with positions shifted by the piece offset)])]
   Law (for inputs that lex):  listnil <=> every non-empty piece is accepted stand-alone;  in that case
   the i-th returned statement equals the stand-alone parse of the i-th non-empty piece, positions
   shifted by the piece's offset;  empty statements are skipped. *)
EXTENDS Integers, Sequences, Json, CSV, TLC
CONSTANTS TraceFile, RejectFile
VARIABLES l
Trace == ndJsonDeserialize(TraceFile)

NonEmpty(ps) == SelectSeq(ps, LAMBDA x : ~x.empty)
Law(r) ==
  ~r.lexok \/
  LET ne == NonEmpty(r.pieces) IN
  /\ ~r.listpan /\ \A i \in 1..Len(ne) : ~ne[i].pan
  /\ r.listnil <=> (\A i \in 1..Len(ne) : ne[i].nil)
  /\ r.listnil => /\ r.nlist = Len(ne)
                  /\ Len(r.ld) = Len(ne)
                  /\ \A i \in 1..Len(ne) : r.ld[i] = ne[i].d
Report(i) == CSVWrite("%1$s,%2$s", <<i, "C11">>, RejectFile)
Init == l = 1
Next == l <= Len(Trace) /\ (IF Law(Trace[l]) THEN TRUE ELSE Report(l)) /\ l' = l + 1
Spec == Init /\ [][Next]_l
Accepted == TLCGet("stats").diameter - 1 = Len(Trace)
==============================================================================
