--------------------------- MODULE ParserRuntime ---------------------------
(* Grammar-independent model of memefish's parser run-time: token cursor,
   recovery points (Lexer.Clone + defer/recover), look-ahead snapshots that
   are restored, panics, rewind-and-skip recovery that manufactures Bad
   nodes, the error list, and the trailing-token check of the entry points. *)
EXTENDS Integers, Sequences, FiniteSets, TLC

CONSTANTS N,                 \* number of tokens before <eof>
          MaxDepth,          \* max nesting of recovery points / look-aheads
          MaxErr,            \* bound on recorded errors (state constraint)
          EntryFetchProtected \* TRUE: a token fetch at top level (first token, token after ';') cannot escape:
                              \* the lexical error is recorded and the lexeme re-read as a <bad> token (nextTokenAtTopLevel);
                              \* FALSE: the pinned code, the fetch sits outside every recovery point

VARIABLES toks,      \* 1..N -> {"t", "bad"}; "bad" = lexically malformed lexeme
          cur,       \* 0 = nothing fetched yet, 1..N = current token, N+1 = <eof>
          stack,     \* frames, innermost last: [type, cur, made]
          rootMade,  \* Bad nodes reachable from the result being built at top level
          nerr,
          phase,     \* "start" | "parse" | "done" | "escaped"
          ret

vars == <<toks, cur, stack, rootMade, nerr, phase, ret>>

Eof == N + 1
IsBad(i) == i <= N /\ toks[i] = "bad"

Frame(type, c) == [type |-> type, cur |-> c, made |-> {}]

Init == /\ toks \in [1..N -> {"t", "semi", "bad"}]
        /\ cur = 0 /\ stack = <<>> /\ rootMade = {} /\ nerr = 0 /\ phase = "start" /\ ret = [errNil |-> TRUE, tree |-> {}]

Depth == Len(stack)
Top == stack[Depth]
HasRec == \E i \in 1..Depth : stack[i].type = "rec"
InnermostRec == CHOOSE i \in 1..Depth : stack[i].type = "rec" /\ \A j \in (i+1)..Depth : stack[j].type # "rec"

\* add Bad nodes to the frame that will own them (or to the root result)
Attach(stk, nodes) ==
  IF stk = <<>> THEN <<stk, rootMade \cup nodes>>
  ELSE <<[stk EXCEPT ![Len(stk)].made = @ \cup nodes], rootMade>>

\* ---- a panic carrying *Error: unwind to the innermost recovery point --------
Panic ==
  IF ~HasRec THEN /\ phase' = "escaped" /\ UNCHANGED <<toks, cur, stack, rootMade, nerr, ret>>
  ELSE LET i == InnermostRec
           f == stack[i]
           from == IF f.cur = 0 THEN 1 ELSE f.cur      \* rewind: p.Lexer = l
       IN \E stop \in from..Eof :                         \* skip tokens in no-panic mode; stop is kind specific
            LET b == [from |-> from, to |-> stop]
                r == Attach(SubSeq(stack, 1, i - 1), {b})  \* everything built inside frame i is dropped
            IN /\ stack' = r[1] /\ rootMade' = r[2]
               /\ cur' = stop
               /\ nerr' = nerr + 1
               /\ phase' = "parse"
               /\ UNCHANGED <<toks, ret>>

\* ---- fetching a token ------------------------------------------------------
Fetch == IF IsBad(cur + 1) THEN Panic
         ELSE /\ cur' = cur + 1 /\ phase' = "parse" /\ UNCHANGED <<toks, stack, rootMade, nerr, ret>>

\* top-level fetch of the repaired code: a lexically bad lexeme becomes the current (<bad>) token and
\* one error is recorded; no Bad node is made here - the statement parsed next reports and skips it
TopFetchSafe == IF IsBad(cur + 1)
                THEN /\ cur' = cur + 1 /\ nerr' = nerr + 1 /\ phase' = "parse" /\ UNCHANGED <<toks, stack, rootMade, ret>>
                ELSE Fetch
Start == /\ phase = "start"
         /\ IF EntryFetchProtected THEN TopFetchSafe ELSE Fetch

\* Only the statement-list loop acts at top level: it starts the next statement (a recovery point);
\* in the pinned code it first fetches the token after ';' outside any recovery point.
IsSemi(i) == i >= 1 /\ i <= N /\ toks[i] = "semi"
TopEnter == /\ phase = "parse" /\ stack = <<>> /\ cur > 0 /\ cur < Eof
            /\ ~IsSemi(cur)
            /\ stack' = <<Frame("rec", cur)>>
            /\ UNCHANGED <<toks, cur, rootMade, nerr, phase, ret>>
\* the statement-list loop: the token after ';' is fetched at top level
TopFetch == /\ phase = "parse" /\ stack = <<>> /\ IsSemi(cur) /\ (IF EntryFetchProtected THEN TopFetchSafe ELSE Fetch)
Advance == phase = "parse" /\ Depth > 0 /\ cur < Eof /\ ~IsBad(cur) /\ Fetch          \* a <bad> current token is never consumed by a production
Enter   == phase = "parse" /\ Depth > 0 /\ Depth < MaxDepth /\ stack' = Append(stack, Frame("rec", cur))
           /\ UNCHANGED <<toks, cur, rootMade, nerr, phase, ret>>
Leave   == /\ phase = "parse" /\ Depth > 0 /\ Top.type = "rec" /\ cur > 0
           /\ LET r == Attach(SubSeq(stack, 1, Depth - 1), Top.made) IN stack' = r[1] /\ rootMade' = r[2]
           /\ UNCHANGED <<toks, cur, nerr, phase, ret>>
Look    == phase = "parse" /\ cur > 0 /\ Depth > 0 /\ Depth < MaxDepth /\ stack' = Append(stack, Frame("look", cur))
           /\ UNCHANGED <<toks, cur, rootMade, nerr, phase, ret>>
LookEnd == /\ phase = "parse" /\ Depth > 0 /\ Top.type = "look"
           /\ cur' = Top.cur                                \* p.Lexer = lexer; errors untouched
           /\ stack' = SubSeq(stack, 1, Depth - 1)
           /\ UNCHANGED <<toks, rootMade, nerr, phase, ret>>
Raise   == phase = "parse" /\ Depth > 0 /\ cur > 0 /\ Panic              \* "unexpected token" etc.

Finish  == /\ phase = "parse" /\ stack = <<>> /\ cur > 0 /\ ~IsSemi(cur) /\ (IsBad(cur) => nerr > 0)
           /\ LET n == IF cur # Eof THEN nerr + 1 ELSE nerr IN
              /\ nerr' = n
              /\ ret' = [errNil |-> n = 0, tree |-> rootMade]
           /\ phase' = "done"
           /\ UNCHANGED <<toks, cur, stack, rootMade>>

Next == Start \/ TopEnter \/ TopFetch \/ Advance \/ Enter \/ Leave \/ Look \/ LookEnd \/ Raise \/ Finish
Spec == Init /\ [][Next]_vars
Constraint == nerr <= MaxErr

\* ---- properties -------------------------------------------------------------
NoEscape == phase # "escaped"
ErrorContract == phase = "done" =>
                   /\ ret.errNil <=> nerr = 0
                   /\ nerr = 0 => (cur = Eof /\ ret.tree = {})
                   /\ nerr >= Cardinality(ret.tree)
BadExact == phase = "done" =>
              \A a, b \in ret.tree : a # b => (a.to <= b.from \/ b.to <= a.from)
BadInRange == \A b \in rootMade : 1 <= b.from /\ b.from <= b.to /\ b.to <= Eof
ErrMonotone == [][nerr' >= nerr]_vars
RestoreKeepsErrors == [][LookEnd => nerr' = nerr]_vars
=============================================================================
