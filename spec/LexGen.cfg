CONSTANTS
  Alphabet = {97, 39, 92, 10, 59, 32, 46, 49, 47, 42}
  MaxLen = 3
  OutFile = ""
  WithSnapshots = TRUE
SPECIFICATION Spec
INVARIANTS Tiling Monotone NonEmptyUnlessEof OneEof InBuffer Emit SnapshotsSound
CHECK_DEADLOCK FALSE
