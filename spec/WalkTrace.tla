------------------------------ MODULE WalkTrace ------------------------------
(***************************************************************************)
(* C17: traversal visits every node exactly once, parents first, siblings  *)
(* in field-declaration order, with the real Field/Index path, pruning     *)
(* skips precisely the subtree, Preorder stops when the consumer stops.    *)
(*                                                                         *)
(* One record per tree (or pair of trees for the *Many variants):          *)
(*   nodes: Seq([kind, ch: Seq(<<field, index, child>>)])   reflection:    *)
(*          node-typed exported fields in declaration order, nil singles   *)
(*          omitted, index = -1 for a single field; node 1 is the root     *)
(*   roots: Seq(node id)                                                   *)
(*   runs:  Seq([mode, prune: Seq(id), stop, log: Seq(<<id, path>>)])      *)
(*          mode walk/inspect/preorder(+many); path = Seq of strings: the  *)
(*          chain of callbacks that produced the visitor which receives    *)
(*          Visit(node): "<Visit>" (the visitor returned by the parent's   *)
(*          Visit), the field name, and for a list element "<VisitMany>"   *)
(*          and "#i"; empty for inspect/preorder.  Every returned visitor  *)
(*          is a fresh object in the harness, so a return value that the   *)
(*          traversal drops shows up as a wrong chain.                     *)
(* The definition Pre below is the specification; the explicit-stack       *)
(* algorithm of ast.Walk is shown equivalent to it in Walk.tla.            *)
(***************************************************************************)
EXTENDS Integers, Sequences, Json, CSV, TLC
CONSTANTS TraceFile, RejectFile
VARIABLES l
Trace == ndJsonDeserialize(TraceFile)

Idx(i) == "#" \o ToString(i)
RECURSIVE Pre(_, _, _, _), PreKids(_, _, _, _, _)
\* pre-order of the subtree of n reached by path, pruned at the nodes of P
Pre(N, P, n, path) ==
  IF n \in P THEN << <<n, path>> >>
  ELSE << <<n, path>> >> \o PreKids(N, P, N[n].ch, 1, path)
PreKids(N, P, ch, k, path) ==
  IF k > Len(ch) THEN <<>>
  ELSE LET c == ch[k]
           p2 == IF c[2] < 0 THEN path \o <<"<Visit>", c[1]>> ELSE path \o <<"<Visit>", c[1], "<VisitMany>", Idx(c[2])>>
       IN Pre(N, P, c[3], p2) \o PreKids(N, P, ch, k + 1, path)
RECURSIVE PreRoots(_, _, _, _, _)
PreRoots(N, P, roots, k, many) ==
  IF k > Len(roots) THEN <<>>
  ELSE Pre(N, P, roots[k], IF many THEN <<"<VisitMany>", Idx(k - 1)>> ELSE <<>>) \o PreRoots(N, P, roots, k + 1, many)

ToSet(s) == {s[i] : i \in 1..Len(s)}
Ids(s) == [i \in 1..Len(s) |-> s[i][1]]
RunOK(rec, run) ==
  LET many == Len(rec.roots) > 1
      exp == PreRoots(rec.nodes, ToSet(run.prune), rec.roots, 1, many) IN
  CASE run.mode = "walk" -> run.log = exp
    [] run.mode = "inspect" -> Ids(run.log) = Ids(exp)
    [] run.mode = "preorder" -> LET all == Ids(PreRoots(rec.nodes, {}, rec.roots, 1, many))
                                    k == IF run.stop = 0 \/ run.stop > Len(all) THEN Len(all) ELSE run.stop
                                IN ~run.pan /\ Ids(run.log) = SubSeq(all, 1, k)
    [] OTHER -> FALSE
TreeOK(rec) == \A r \in 1..Len(rec.runs) : RunOK(rec, rec.runs[r])
Report(i) == CSVWrite("%1$s,%2$s", <<i, "C17">>, RejectFile)
Init == l = 1
Next == l <= Len(Trace) /\ (IF TreeOK(Trace[l]) THEN TRUE ELSE Report(l)) /\ l' = l + 1
Spec == Init /\ [][Next]_l
Accepted == TLCGet("stats").diameter - 1 = Len(Trace)
==============================================================================
