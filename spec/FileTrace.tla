------------------------------ MODULE FileTrace ------------------------------
(* C20 trace validation.  Records:
     kind "pos": one call of File.Position(pos, end) on a fresh or shared File:
        [buf, path, pos, end, line, col, eline, ecol, src, str, pan, rline, rcol, reline, recol]
        (line.. = fields of the returned Position, r* = what ResolvePos returned, src = excerpt,
         str = Position.String())
     kind "err": one *Error produced by a Parse* call: [buf, path, pos, end, msg (Error() text), pan]
   A leading newline of a multi-line excerpt is tolerated (not stated by the property). *)
EXTENDS File, Json, CSV, TLC
CONSTANTS TraceFile, RejectFile
VARIABLES l
Trace == ndJsonDeserialize(TraceFile)

StripNL(s) == IF Len(s) > 0 /\ s[1] = NL THEN SubSeq(s, 2, Len(s)) ELSE s
IsPrefixOf(p, s) == Len(p) <= Len(s) /\ SubSeq(s, 1, Len(p)) = p
SyntaxError == <<115,121,110,116,97,120,32,101,114,114,111,114,58,32>>    \* "syntax error: "

PosOK(r) ==
  /\ ~r.pan
  /\ r.line = Line(r.buf, r.pos) /\ r.col = Col(r.buf, r.pos)
  /\ r.eline = Line(r.buf, r.end) /\ r.ecol = Col(r.buf, r.end)
  /\ r.rline = r.line /\ r.rcol = r.col /\ r.reline = r.eline /\ r.recol = r.ecol
  /\ r.str = Prefix(r.path, r.buf, r.pos)
  /\ \/ r.src = Excerpt(r.buf, r.pos, r.end)
     \/ (r.line # r.eline /\ StripNL(r.src) = Excerpt(r.buf, r.pos, r.end))
ErrOK(r) ==
  /\ ~r.pan
  /\ 0 <= r.pos /\ r.pos <= r.end /\ r.end <= Len(r.buf)
  /\ IsPrefixOf(SyntaxError \o Prefix(r.path, r.buf, r.pos) \o <<58, 32>>, r.msg)
Match(r) == IF r.kind = "pos" THEN PosOK(r) ELSE ErrOK(r)
Report(i) == CSVWrite("%1$s,%2$s", <<i, "C20">>, RejectFile)
Init == l = 1
Next == l <= Len(Trace) /\ (IF Match(Trace[l]) THEN TRUE ELSE Report(l)) /\ l' = l + 1
Spec == Init /\ [][Next]_l
Accepted == TLCGet("stats").diameter - 1 = Len(Trace)
==============================================================================
