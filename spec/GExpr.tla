-------------------------------- MODULE GExpr --------------------------------
(***************************************************************************)
(* Reference grammar G, part 1: expressions and types.                     *)
(* Written from the GoogleSQL operator-precedence table, the Spanner       *)
(* expression / literal / type pages and the node documentation in         *)
(* ast/ast.go (its text/template lines), NOT from parser.go.               *)
(*                                                                         *)
(* Precedence levels (1 binds tightest):                                   *)
(*   1 field access / subscript     2 unary + - ~       3 * / ||           *)
(*   4 + -    5 << >>    6 &    7 ^    8 |                                 *)
(*   9 comparison family (non-associative)   10 NOT   11 AND   12 OR       *)
(* A binary template at level L has Left: E(L), Right: E(L-1), which IS    *)
(* left associativity; comparison operands are E(8); BETWEEN bounds E(8).  *)
(***************************************************************************)
EXTENDS GCore

E(l) == CASE l = 0 -> "E0" [] l = 1 -> "E1" [] l = 2 -> "E2" [] l = 3 -> "E3" [] l = 4 -> "E4" [] l = 5 -> "E5" [] l = 6 -> "E6"
          [] l = 7 -> "E7" [] l = 8 -> "E8" [] l = 9 -> "E9" [] l = 10 -> "E10" [] l = 11 -> "E11" [] l = 12 -> "E12"
Expr == "E12"

\* ---- leaf pools (small and adversarial; the first entry is the default) ----
IdPool     == << Same("a"), P("`b c`", "b c"), P("`from`", "from"), Same("Offset1"), Same("date") >>   \* "date": spelled like a built-in type, still an identifier
FieldPool  == << Same("f"), Same("all"), P("`x y`", "x y") >>       \* after '.': any identifier-like run is an identifier
FuncPool   == << Same("fn"), Same("safe"), Same("IF1") >>
IntPool    == << Same("1"), Same("0x1F"), Same("007") >>
FloatPool  == << Same("1.5"), Same(".5"), Same("1e3"), Same("1.") >>
StrPool    == << P("'s'", "s"), P("\"it's\"", "it's"), P("r'\\d'", "\\d"), P("'''a''b'''", "a''b"),
                 P("\"\\xff\\ufffd\"", "?"), P("'10\\u00a0km\\n'", "?") >>      \* an invalid UTF-8 byte next to U+FFFD; a non-printable Latin-1 code point
BytesPool  == << P("b'x'", "x"), P("B\"\\x00y\"", "?y"), P("rb'\\n'", "\\n") >>
ParamPool  == << P("@p", "p"), P("@Limit", "Limit") >>

Ident     == Tmpl("Ident", <<LEAF("Name", "id", IdPool)>>)
FieldId   == Tmpl("Ident", <<LEAF("Name", "id", FieldPool)>>)
FuncId    == Tmpl("Ident", <<LEAF("Name", "id", FuncPool)>>)
StringLit == Tmpl("StringLiteral", <<LEAF("Value", "str", StrPool)>>)
IntLit    == Tmpl("IntLiteral", <<LEAF("Value", "int", IntPool)>>)
FloatLit  == Tmpl("FloatLiteral", <<LEAF("Value", "float", FloatPool)>>)
ParamT    == Tmpl("Param", <<LEAF("Name", "param", ParamPool)>>)
\* a sign directly in front of an unsigned numeric literal belongs to the literal (one node, two tokens)
SignedInt(sg)   == Tmpl("IntLiteral", <<T(sg), TOK("int", "1"), SET("Value", sg \o "1")>>)
SignedFloat(sg) == Tmpl("FloatLiteral", <<T(sg), TOK("float", "2.5"), SET("Value", sg \o "2.5")>>)

Paren == Tmpl("ParenExpr", <<T("("), N("Expr", Expr), T(")")>>)

\* ---- types -----------------------------------------------------------------
SimpleTypeNames == <<"INT64", "BOOL", "FLOAT32", "FLOAT64", "DATE", "TIMESTAMP", "NUMERIC", "STRING", "BYTES", "JSON", "TOKENLIST">>
SimpleType(n) == Tmpl("SimpleType", <<KW(n), SET("Name", n)>>)
TypeTmpls ==
  [j \in 1..Len(SimpleTypeNames) |-> SimpleType(SimpleTypeNames[j])] \o
  << Tmpl("SimpleType", <<TOK("tn", "`Date`"), SET("Name", "DATE")>>) >> \o      \* type names are matched on the decoded name
  << Tmpl("ArrayType", <<T("ARRAY"), T("<"), N("Item", "Type"), T(">")>>),
     Tmpl("StructType", <<T("STRUCT"), T("<"), L("Fields", "StructField", ",", 0), T(">")>>),
     Tmpl("NamedType", <<L("Path", "TypeNameId", ".", 1)>>) >>
\* a field name spelled like a built-in type is the common case in practice (date DATE) and the one a look-ahead can get wrong
StructFieldId == Tmpl("Ident", <<LEAF("Name", "id", << Same("date"), Same("a"), P("`b c`", "b c") >>)>>)
StructFieldT == << Tmpl("StructField", <<N("Type", "Type")>>),
                   Tmpl("StructField", <<N("Ident", "StructFieldId"), N("Type", "Type")>>) >>
TypeNameIdT == << Tmpl("Ident", <<LEAF("Name", "id", <<Same("MyProto"), Same("pkg"), P("`my.Enum`", "my.Enum")>>)>>) >>

\* ---- atoms (level 0) ---------------------------------------------------------
PathT == Tmpl("Path", <<LOPEN("Idents"), N("", "Ident"), T("."), LI("FieldId", ".", 1), LCLOSE>>)
NameExprT == <<Ident, PathT>>
HintT == Tmpl("Hint", <<T("@"), T("{"), L("Records", "HintRecord", ",", 1), T("}")>>)
DateLike(node, kw) == Tmpl(node, <<KW(kw), N("Value", "StringLit")>>)

CallArgs == <<L("Args", "Arg", ",", 0)>>
Atoms == <<
  Ident,
  IntLit, FloatLit, StringLit,
  Tmpl("BytesLiteral", <<LEAF("Value", "bytes", BytesPool)>>),
  Tmpl("NullLiteral", <<T("NULL")>>),
  Tmpl("BoolLiteral", <<ENUM("Value", <<A("true", <<T("TRUE")>>), A("false", <<T("FALSE")>>)>>)>>),
  ParamT,
  Paren,
  PathT,
  DateLike("DateLiteral", "DATE"), DateLike("TimestampLiteral", "TIMESTAMP"), DateLike("NumericLiteral", "NUMERIC"), DateLike("JSONLiteral", "JSON"),
  Tmpl("CallExpr", <<N("Func", "FuncPath"), T("("), L("Args", "Arg", ",", 0), T(")"), O("Hint", "Hint")>>),
  Tmpl("CallExpr", <<N("Func", "FuncPath"), T("("), OPT(<<T("DISTINCT"), SET("Distinct", TRUE)>>), L("Args", "ExprArg", ",", 1),
                     O("NullHandling", "NullHandling"), O("Having", "HavingModifier"), T(")")>>),
  Tmpl("CallExpr", <<N("Func", "FuncPath"), T("("), L("Args", "ExprArg", ",", 1), T(","), L("NamedArgs", "NamedArg", ",", 1), T(")")>>),
  Tmpl("CallExpr", <<N("Func", "FuncPath"), T("("), L("NamedArgs", "NamedArg", ",", 1), T(")")>>),
  Tmpl("CountStarExpr", <<KW("COUNT"), T("("), T("*"), T(")")>>),
  Tmpl("CastExpr", <<ENUM("Safe", <<A("false", <<T("CAST")>>), A("true", <<KW("SAFE_CAST")>>)>>), T("("), N("Expr", Expr), T("AS"), N("Type", "Type"), T(")")>>),
  Tmpl("CaseExpr", <<T("CASE"), O("Expr", Expr), L("Whens", "CaseWhen", "", 1), O("Else", "CaseElse"), T("END")>>),
  Tmpl("IfExpr", <<T("IF"), T("("), N("Expr", Expr), T(","), N("TrueResult", Expr), T(","), N("ElseResult", Expr), T(")")>>),
  Tmpl("ExtractExpr", <<T("EXTRACT"), T("("), N("Part", "DatePart"), T("FROM"), N("Expr", Expr), O("AtTimeZone", "AtTimeZone"), T(")")>>),
  Tmpl("ArrayLiteral", <<POS("Array", FALSE), T("["), L("Values", Expr, ",", 0), T("]")>>),
  Tmpl("ArrayLiteral", <<POS("Array", TRUE), T("ARRAY"), T("["), L("Values", Expr, ",", 0), T("]")>>),
  Tmpl("ArrayLiteral", <<POS("Array", TRUE), T("ARRAY"), T("<"), N("Type", "Type"), T(">"), T("["), L("Values", Expr, ",", 0), T("]")>>),
  Tmpl("TupleStructLiteral", <<T("("), L("Values", Expr, ",", 2), T(")")>>),
  Tmpl("TypelessStructLiteral", <<T("STRUCT"), T("("), L("Values", "StructArg", ",", 0), T(")")>>),
  Tmpl("TypedStructLiteral", <<T("STRUCT"), T("<"), L("Fields", "StructField", ",", 0), T(">"), T("("), L("Values", Expr, ",", 0), T(")")>>),
  Tmpl("ScalarSubQuery", <<T("("), N("Query", "SubQueryBody"), T(")")>>),
  Tmpl("ArraySubQuery", <<T("ARRAY"), T("("), N("Query", "SubQueryBody"), T(")")>>),
  Tmpl("ExistsSubQuery", <<T("EXISTS"), T("("), N("Query", "SubQueryBody"), T(")")>>),
  Tmpl("WithExpr", <<T("WITH"), T("("), L("Vars", "WithExprVar", ",", 1), T(","), N("Expr", Expr), T(")")>>),
  Tmpl("NewConstructor", <<T("NEW"), N("Type", "NamedTypeOnly"), T("("), L("Args", "NewArg", ",", 0), T(")")>>),
  Tmpl("BracedNewConstructor", <<T("NEW"), N("Type", "NamedTypeOnly"), N("Body", "BracedConstructor")>>),
  Tmpl("ReplaceFieldsExpr", <<KW("REPLACE_FIELDS"), T("("), N("Expr", Expr), T(","), L("Fields", "ReplaceFieldsArg", ",", 1), T(")")>>)
>>

\* ---- postfix (level 1): bases of '.' must not be an identifier or path (those extend the Path) ---------
IndexT    == Tmpl("IndexExpr", <<N("Expr", E(1)), T("["), N("Index", "Subscript"), T("]")>>)
\* After '.', an identifier-like run (even a keyword or digits) is an identifier ONLY when the dot follows an
\* identifier, a parameter, ')' or ']' (lexical structure, dot-identifier state).  So a keyword-spelled field
\* name is derivable only behind such a base; behind any other base (a literal, CASE ... END, '}') the field is
\* an ordinary identifier.
SelectorT  == Tmpl("SelectorExpr", <<N("Expr", "SelBaseDot"), T("."), N("Ident", "FieldId")>>)
SelectorT2 == Tmpl("SelectorExpr", <<N("Expr", "SelBasePlain"), T("."), N("Ident", "Ident")>>)
IsName(t) == t.node \in {"Ident", "Path"}
NotName(ts) == SelectSeq(ts, LAMBDA t : ~IsName(t))
EndsDotable(t) == t.node \in {"ParenExpr", "Param", "CountStarExpr", "CastExpr", "IfExpr", "ExtractExpr", "ArrayLiteral", "TupleStructLiteral", "TypelessStructLiteral",
                               "TypedStructLiteral", "ScalarSubQuery", "ArraySubQuery", "ExistsSubQuery", "WithExpr", "NewConstructor", "ReplaceFieldsExpr"}
                  \/ (t.node = "CallExpr" /\ t.items[Len(t.items)].i = "T")        \* a call that ends with ')' (no trailing hint)
SelBaseDotT   == SelectSeq(Atoms, EndsDotable) \o <<IndexT, SelectorT, SelectorT2>>
SelBasePlainT == SelectSeq(Atoms, LAMBDA t : ~IsName(t) /\ ~EndsDotable(t))
SelBaseT  == SelBaseDotT \o SelBasePlainT

\* ---- operators ---------------------------------------------------------------
BinOps(l) == CASE l = 3 -> <<"*", "/", "||">> [] l = 4 -> <<"+", "-">> [] l = 5 -> <<"<<", ">>">>
               [] l = 6 -> <<"&">> [] l = 7 -> <<"^">> [] l = 8 -> <<"|">>
               [] l = 11 -> <<"AND">> [] l = 12 -> <<"OR">> [] OTHER -> <<>>
Bin(l, op) == Tmpl("BinaryExpr", <<N("Left", E(l)), T(op), SET("Op", op), N("Right", E(l - 1))>>)
Unary(op, nt) == Tmpl("UnaryExpr", <<T(op), SET("Op", op), N("Expr", nt)>>)
CmpSimple == <<"=", "<", ">", "<=", ">=">>
Cmp(op) == Tmpl("BinaryExpr", <<N("Left", E(8)), T(op), SET("Op", op), N("Right", E(8))>>)
NotFlag == FLAG("Not", <<T("NOT")>>)
Comparisons ==
  [j \in 1..Len(CmpSimple) |-> Cmp(CmpSimple[j])] \o
  << Tmpl("BinaryExpr", <<N("Left", E(8)), VAR(<< <<T("!=")>>, <<T("<>")>> >>), SET("Op", "!="), N("Right", E(8))>>),
     Tmpl("BinaryExpr", <<N("Left", E(8)), T("LIKE"), SET("Op", "LIKE"), N("Right", E(8))>>),
     Tmpl("BinaryExpr", <<N("Left", E(8)), T("NOT"), T("LIKE"), SET("Op", "NOT LIKE"), N("Right", E(8))>>),
     Tmpl("IsNullExpr", <<N("Left", E(8)), T("IS"), NotFlag, T("NULL")>>),
     Tmpl("IsBoolExpr", <<N("Left", E(8)), T("IS"), NotFlag, ENUM("Right", <<A("true", <<T("TRUE")>>), A("false", <<T("FALSE")>>)>>)>>),
     Tmpl("InExpr", <<N("Left", E(8)), NotFlag, T("IN"), N("Right", "InCondition")>>),
     Tmpl("BetweenExpr", <<N("Left", E(8)), NotFlag, T("BETWEEN"), N("RightStart", E(8)), T("AND"), N("RightEnd", E(8))>>) >>

\* operand of unary + - : anything of level 2 except a bare unsigned numeric literal (that one is folded)
IsBareNum(t) == t.node \in {"IntLiteral", "FloatLiteral"} /\ t.items[1].i = "LEAF"
Level2Own == <<SignedInt("-"), SignedInt("+"), SignedFloat("-"), Unary("-", "E2n"), Unary("+", "E2n"), Unary("~", E(2))>>

\* cumulative template tables per level (zero-arity, so TLC evaluates each once)
ET0 == Atoms
ET1 == ET0 \o <<IndexT, SelectorT, SelectorT2>>
ET2 == ET1 \o Level2Own
BinLevel(l) == [j \in 1..Len(BinOps(l)) |-> Bin(l, BinOps(l)[j])]
ET3 == ET2 \o BinLevel(3)
ET4 == ET3 \o BinLevel(4)
ET5 == ET4 \o BinLevel(5)
ET6 == ET5 \o BinLevel(6)
ET7 == ET6 \o BinLevel(7)
ET8 == ET7 \o BinLevel(8)
ET9 == ET8 \o Comparisons
ET10 == ET9 \o <<Unary("NOT", E(10))>>
ET11 == ET10 \o BinLevel(11)
ET12 == ET11 \o BinLevel(12)
ET2n == SelectSeq(ET2, LAMBDA t : ~IsBareNum(t))

OpNodes == {"BinaryExpr", "UnaryExpr", "InExpr", "IsNullExpr", "IsBoolExpr", "BetweenExpr", "IndexExpr", "SelectorExpr"}
IsOpTmpl(t) == t.node \in OpNodes \/ (t.node \in {"IntLiteral", "FloatLiteral"} /\ t.items[1].i = "T" /\ t.items[1].c = "kw")
ELevels == {"E0", "E1", "E2", "E2n", "E3", "E4", "E5", "E6", "E7", "E8", "E9", "E10", "E11", "E12", "SelBase", "SelBaseDot", "SelBasePlain"}

\* ---- helpers of the atoms -------------------------------------------------------
FuncPathT == << Tmpl("Path", <<L("Idents", "FuncId", ".", 1)>>) >>
ArgT == << Tmpl("ExprArg", <<N("Expr", Expr)>>),
           Tmpl("IntervalArg", <<T("INTERVAL"), N("Expr", Expr), N("Unit", "DatePart")>>),
           Tmpl("SequenceArg", <<KW("SEQUENCE"), N("Expr", "NameExpr")>>),
           Tmpl("LambdaArg", <<POS("Lparen", FALSE), LOPEN("Args"), N("", "Ident"), LCLOSE, T("->"), N("Expr", Expr)>>),
           Tmpl("LambdaArg", <<POS("Lparen", TRUE), T("("), L("Args", "Ident", ",", 1), T(")"), T("->"), N("Expr", Expr)>>) >>
ExprArgT == << Tmpl("ExprArg", <<N("Expr", Expr)>>) >>
NamedArgT == << Tmpl("NamedArg", <<N("Name", "Ident"), T("=>"), N("Value", Expr)>>) >>
NullHandlingT == << Tmpl("IgnoreNulls", <<T("IGNORE"), T("NULLS")>>), Tmpl("RespectNulls", <<T("RESPECT"), T("NULLS")>>) >>
HavingModT == << Tmpl("HavingMax", <<T("HAVING"), KW("MAX"), N("Expr", Expr)>>), Tmpl("HavingMin", <<T("HAVING"), KW("MIN"), N("Expr", Expr)>>) >>
HintRecordT == << Tmpl("HintRecord", <<N("Key", "HintKey"), T("="), N("Value", Expr)>>) >>
HintKeyT == << Tmpl("Path", <<L("Idents", "HintKeyId", ".", 1)>>) >>
HintKeyIdT == << Tmpl("Ident", <<LEAF("Name", "id", <<Same("FORCE_INDEX"), Same("spanner"), Same("k")>>)>>) >>
CaseWhenT == << Tmpl("CaseWhen", <<T("WHEN"), N("Cond", Expr), T("THEN"), N("Then", Expr)>>) >>
CaseElseT == << Tmpl("CaseElse", <<T("ELSE"), N("Expr", Expr)>>) >>
DatePartT == << Tmpl("Ident", <<LEAF("Name", "id", <<Same("DAY"), Same("year"), Same("Week")>>)>>) >>
AtTimeZoneT == << Tmpl("AtTimeZone", <<T("AT"), KW("TIME"), KW("ZONE"), N("Expr", Expr)>>) >>
AsAliasReq == Tmpl("AsAlias", <<POS("As", TRUE), T("AS"), N("Alias", "Ident")>>)
StructArgT == << Tmpl("ExprArg", <<N("Expr", Expr)>>), Tmpl("Alias", <<N("Expr", Expr), N("As", "AsAliasReq")>>) >>
NewArgT == StructArgT
WithExprVarT == << Tmpl("WithExprVar", <<N("Name", "Ident"), T("AS"), N("Expr", Expr)>>) >>
NamedTypeOnlyT == << Tmpl("NamedType", <<L("Path", "TypeNameId", ".", 1)>>) >>
\* the comma between fields is optional, a trailing one is allowed: surface variants without tree effect
OptComma == VAR(<< <<T(",")>>, <<>> >>)
BracedConstructorT == << Tmpl("BracedConstructor", <<T("{"), LS("Fields", "BracedField", <<OptComma>>, 0), T("}")>>) >>
BracedFieldT == << Tmpl("BracedConstructorField", <<N("Name", "Ident"), N("Value", "BracedValue")>>) >>
BracedValueT == << Tmpl("BracedConstructorFieldValueExpr", <<T(":"), N("Expr", Expr)>>), BracedConstructorT[1] >>
ReplaceFieldsArgT == << Tmpl("ReplaceFieldsArg", <<N("Expr", Expr), T("AS"), N("Field", "FieldPath")>>) >>
FieldPathT == << Tmpl("Path", <<L("Idents", "Ident", ".", 1)>>) >>
SubscriptT == << Tmpl("ExprArg", <<N("Expr", Expr)>>),
                 Tmpl("SubscriptSpecifierKeyword", <<ENUM("Keyword", <<A("OFFSET", <<KW("OFFSET")>>), A("ORDINAL", <<KW("ORDINAL")>>),
                        A("SAFE_OFFSET", <<KW("SAFE_OFFSET")>>), A("SAFE_ORDINAL", <<KW("SAFE_ORDINAL")>>)>>), T("("), N("Expr", Expr), T(")")>>) >>
InConditionT == << Tmpl("ValuesInCondition", <<T("("), L("Exprs", Expr, ",", 1), T(")")>>),
                   Tmpl("UnnestInCondition", <<T("UNNEST"), T("("), N("Expr", Expr), T(")")>>),
                   Tmpl("SubQueryInCondition", <<T("("), N("Query", "SubQueryBody"), T(")")>>) >>

ExprTemplates(nt) ==
  CASE nt = "E0" -> ET0 [] nt = "E1" -> ET1 [] nt = "E2" -> ET2 [] nt = "E3" -> ET3
    [] nt = "E4" -> ET4 [] nt = "E5" -> ET5 [] nt = "E6" -> ET6 [] nt = "E7" -> ET7
    [] nt = "E8" -> ET8 [] nt = "E9" -> ET9 [] nt = "E10" -> ET10 [] nt = "E11" -> ET11
    [] nt = "E12" -> ET12
    [] nt = "E2n" -> ET2n
    [] nt = "SelBase" -> SelBaseT [] nt = "SelBaseDot" -> SelBaseDotT [] nt = "SelBasePlain" -> SelBasePlainT [] nt = "NameExpr" -> NameExprT
    [] nt = "Ident" -> <<Ident>> [] nt = "FieldId" -> <<FieldId>> [] nt = "FuncId" -> <<FuncId>> [] nt = "StringLit" -> <<StringLit>>
    [] nt = "Type" -> TypeTmpls [] nt = "StructField" -> StructFieldT [] nt = "StructFieldId" -> <<StructFieldId>> [] nt = "TypeNameId" -> TypeNameIdT
    [] nt = "FuncPath" -> FuncPathT [] nt = "Arg" -> ArgT [] nt = "ExprArg" -> ExprArgT [] nt = "NamedArg" -> NamedArgT
    [] nt = "NullHandling" -> NullHandlingT [] nt = "HavingModifier" -> HavingModT
    [] nt = "Hint" -> <<HintT>> [] nt = "HintRecord" -> HintRecordT [] nt = "HintKey" -> HintKeyT [] nt = "HintKeyId" -> HintKeyIdT
    [] nt = "CaseWhen" -> CaseWhenT [] nt = "CaseElse" -> CaseElseT [] nt = "DatePart" -> DatePartT [] nt = "AtTimeZone" -> AtTimeZoneT
    [] nt = "AsAliasReq" -> <<AsAliasReq>> [] nt = "StructArg" -> StructArgT [] nt = "NewArg" -> NewArgT
    [] nt = "WithExprVar" -> WithExprVarT [] nt = "NamedTypeOnly" -> NamedTypeOnlyT
    [] nt = "BracedConstructor" -> BracedConstructorT [] nt = "BracedField" -> BracedFieldT [] nt = "BracedValue" -> BracedValueT
    [] nt = "ReplaceFieldsArg" -> ReplaceFieldsArgT [] nt = "FieldPath" -> FieldPathT
    [] nt = "Subscript" -> SubscriptT [] nt = "InCondition" -> InConditionT
    [] OTHER -> <<>>
==============================================================================
