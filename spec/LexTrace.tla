------------------------------ MODULE LexTrace ------------------------------
(* Trace validation of recorded NextToken loops of the real lexer (code -> spec).
   One TLC state per recorded input.  Every record is checked; a failing record is written to
   RejectFile as "<line>,<property>" (collect-all), and the post-condition proves that every
   record of the chunk was consumed.

   record: [buf, toks: Seq([k, p, e, raw, sp, v, bs, cs: Seq([sp, raw, p, e])]), err, ep, ee, pan, again]
     C13 is evaluated on the LOGGED values (tiling, Raw = slice, order, white space, complete
         comments, non-empty, single <eof>, <eof> absorbing);
     C14 compares the logged stream with the reference lexer LexAll(buf);
     C03 (lexer part): no panic escaped NextToken, the error has type *Error (ep >= 0) and its
         position lies inside the buffer. *)
EXTENDS LexerCore, Json, CSV
CONSTANTS TraceFile, RejectFile
VARIABLES l

Trace == ndJsonDeserialize(TraceFile)

\* ---- C14: the implementation's stream is the reference stream ---------------
KindOK(s, t) == \/ s.k = t.k /\ s.k # "kw"
                \/ s.k = "kw" /\ t.k = "kw" /\ s.v = t.v
                \/ s.k \in {"p1", "p2"} /\ t.k = "punct" /\ s.v = t.v
ValOK(s, t) == s.k \in {"<ident>", "<param>", "<string>", "<bytes>"} => s.v = t.v
CommentsOK(s, t) == /\ Len(s.cs) = Len(t.cs)
                    /\ \A j \in 1..Len(s.cs) : s.cs[j].p = t.cs[j].p /\ s.cs[j].e = t.cs[j].e
                                               /\ Len(t.cs[j].sp) = s.cs[j].p - s.cs[j].sp
TokOK(s, t) == /\ KindOK(s, t) /\ s.p = t.p /\ s.e = t.e /\ ValOK(s, t)
               /\ (s.k = "<int>" => s.bs = t.bs)
               /\ CommentsOK(s, t)

C14OK(rec) ==
  LET sp == LexAll(rec.buf)
      n == Len(sp)
      last == sp[n] IN
  IF last.k = "<err>"
  THEN /\ (rec.err \/ rec.pan)
       /\ Len(rec.toks) = n - 1
       /\ \A i \in 1..(n - 1) : TokOK(sp[i], rec.toks[i])
  ELSE /\ ~rec.err /\ ~rec.pan
       /\ Len(rec.toks) = n
       /\ \A i \in 1..n : TokOK(sp[i], rec.toks[i])

\* ---- C13: losslessness, on the logged values --------------------------------
RECURSIVE Flat(_, _)
Flat(T, i) == IF i > Len(T) THEN <<>>
              ELSE LET t == T[i]
                       CT[j \in 0..Len(t.cs)] == IF j = 0 THEN <<>> ELSE CT[j-1] \o t.cs[j].sp \o t.cs[j].raw
                   IN CT[Len(t.cs)] \o t.sp \o t.raw \o Flat(T, i + 1)
AllSpace(s) == ScanSpaces(s, 1) = Len(s) + 1
\* a complete comment: lexing its raw text alone gives exactly one comment that consumes all of it;
\* a to-end-of-line comment may lack its newline only at the end of the buffer
CompleteComment(b, c) ==
  /\ Len(c.raw) > 0
  /\ CommentAt(c.raw, 1) = <<"ok", Len(c.raw) + 1>>
  /\ (c.raw[1] # 47 \/ At(c.raw, 2) # 42) => (c.raw[Len(c.raw)] = 10 \/ c.e = Len(b))
\* ranges in order: comments of token i, then token i, then comments of token i+1 ...
RECURSIVE Ordered(_, _, _)
Ordered(T, i, from) ==
  IF i > Len(T) THEN TRUE
  ELSE LET t == T[i]
           CE[j \in 0..Len(t.cs)] == IF j = 0 THEN from ELSE t.cs[j].e
       IN /\ \A j \in 1..Len(t.cs) : CE[j-1] <= t.cs[j].p /\ t.cs[j].p < t.cs[j].e
          /\ CE[Len(t.cs)] <= t.p /\ t.p <= t.e
          /\ Ordered(T, i + 1, t.e)

C13OK(rec) ==
  (~rec.err /\ ~rec.pan) =>
  LET T == rec.toks n == Len(T) b == rec.buf IN
  /\ n >= 1 /\ T[n].k = "<eof>" /\ \A i \in 1..(n - 1) : T[i].k # "<eof>"
  /\ Flat(T, 1) = b
  /\ \A i \in 1..n : /\ T[i].raw = Slice(b, T[i].p, T[i].e)
                     /\ AllSpace(T[i].sp)
                     /\ (i < n => T[i].p < T[i].e)
                     /\ \A j \in 1..Len(T[i].cs) : /\ T[i].cs[j].raw = Slice(b, T[i].cs[j].p, T[i].cs[j].e)
                                                   /\ AllSpace(T[i].cs[j].sp)
                                                   /\ CompleteComment(b, T[i].cs[j])
  /\ Ordered(T, 1, 0) /\ T[n].e = Len(b)
  /\ Len(rec.again) >= 1
  /\ \A i \in 1..Len(rec.again) : rec.again[i].k = "<eof>" /\ rec.again[i].p = Len(b) /\ rec.again[i].e = Len(b)
                                  /\ rec.again[i].raw = <<>>

\* ---- C03 (lexer part) -------------------------------------------------------
C03OK(rec) == /\ ~rec.pan
              /\ rec.err => (0 <= rec.ep /\ rec.ep <= rec.ee /\ rec.ee <= Len(rec.buf))

Report(i, prop) == CSVWrite("%1$s,%2$s", <<i, prop>>, RejectFile)
Check(i) == LET r == Trace[i] IN
  /\ (IF C13OK(r) THEN TRUE ELSE Report(i, "C13"))
  /\ (IF C14OK(r) THEN TRUE ELSE Report(i, "C14"))
  /\ (IF C03OK(r) THEN TRUE ELSE Report(i, "C03"))

Init == l = 1
Next == l <= Len(Trace) /\ Check(l) /\ l' = l + 1
Spec == Init /\ [][Next]_l
Accepted == TLCGet("stats").diameter - 1 = Len(Trace)
==============================================================================
