------------------------------- MODULE LexGen -------------------------------
(* Generator / design check for the lexer specification: every byte string up to MaxLen over
   Alphabet is an initial state; the C13 invariants are checked on the specification's own
   behaviour and each terminal state is written out (buffer + expected token stream) so that the
   harness can replay it into the real lexer (spec -> code direction). *)
EXTENDS Lexer, Json, CSV
CONSTANTS Alphabet, MaxLen, OutFile, WithSnapshots

Strings == UNION {[1..n -> Alphabet] : n \in 0..MaxLen}

Init == \E b \in Strings : LexInit(b)
Next == NextToken \/ AgainAtEof \/ (WithSnapshots /\ (Clone \/ Restore))
Spec == Init /\ [][Next]_lexvars

Terminal == status = "err" \/ (status = "eof" /\ st.tok = out[Len(out)])
Emit == (Terminal /\ OutFile # "") => CSVWrite("%1$s", <<ToJson([buf |-> buf, out |-> out, status |-> status])>>, OutFile)

\* snapshots never change what the lexer produces from a given state: the stream from a restored
\* state is the stream LexFrom computes for it (determinism of the step function)
SnapshotsSound == \A s \in snaps : s.pos <= Len(buf)
==============================================================================
