------------------------------- MODULE Grammar -------------------------------
(***************************************************************************)
(* Derivation engine of the reference grammar G (generator specification). *)
(*                                                                         *)
(* State: work (stack of pending items), tape (output so far), budget      *)
(* (non-default choices left).  One TLC state per CHOICE: deterministic    *)
(* items are flushed to the tape inside the action.  Every nonterminal has *)
(* a default expansion of cost 0 (its first template, the shortest list,   *)
(* optional absent, flag false, first enum value, canonical variant, first *)
(* pool entry); every other choice costs 1.  Budget = B therefore          *)
(* enumerates EVERY sentence that differs from the minimal sentence of its *)
(* start template in at most B choice points, at every nesting position.   *)
(* Each finished derivation is written once as one NDJSON line.            *)
(***************************************************************************)
EXTENDS GDDL, TLC, Json, CSV
CONSTANTS Budget,      \* number of non-default choices per sentence
          StartNT,     \* start nonterminal
          StartFree,   \* TRUE: the choice of the start template is free (statement kinds)
          OutFile,     \* NDJSON output ("" = no output)
          WrapOps,     \* TRUE: every operator operand that is itself an operator expression is parenthesised (C07)
          OpsOnly,     \* TRUE: only operator templates may be chosen at expression positions (C07)
          LeafAlts,    \* FALSE: leaves keep their default spelling
          DenseDepth   \* 0: optional parts default to absent.  d > 0: "dense" derivations - down to nesting depth d below the
                       \* start symbol an optional clause / flag defaults to PRESENT (a list to two elements) and leaving it out costs 1, so a small
                       \* budget enumerates the sentences with (almost) all optional parts of a construct present at once
VARIABLES work, tape, budget
vars == <<work, tape, budget>>

Templates(nt) ==
  LET e == ExprTemplates(nt) IN IF e # <<>> THEN e
  ELSE LET q == QueryTemplates(nt) IN IF q # <<>> THEN q
  ELSE LET d == DMLTemplates(nt) IN IF d # <<>> THEN d
  ELSE DDLTemplates(nt)

\* templates selectable at nonterminal nt in the current mode
Selectable(nt, j) == LET t == Templates(nt)[j] IN
  j = 1 \/ ~OpsOnly \/ nt \notin ELevels \/ IsOpTmpl(t)

\* dense marking: the options of a construct at depth <= DenseDepth carry dense > 0
D(it) == IF "dense" \in DOMAIN it THEN it.dense ELSE 0
Mark(items, d) == [k \in 1..Len(items) |->
                     IF d > 0 /\ items[k].i \in {"O", "OPT", "FLAG", "L"} THEN [dense |-> d] @@ items[k]
                     ELSE IF d > 1 /\ items[k].i = "N" THEN [dense |-> d - 1] @@ items[k]
                     ELSE items[k]]
WrapParen(f, inner) == <<OPEN("ParenExpr", f), T("(")>> \o inner \o <<T(")"), CLOSE>>
Expand(it, t) ==
  IF WrapOps /\ it.nt \in ELevels /\ IsOpTmpl(t) /\ it.f \notin {"", "ROOT"}
  THEN WrapParen(it.f, <<OPEN(t.node, "Expr")>> \o t.items \o <<CLOSE>>)
  ELSE <<OPEN(t.node, it.f)>> \o Mark(t.items, D(it)) \o <<CLOSE>>

IsChoice(it) ==
  \/ it.i \in {"O", "L", "FLAG", "ENUM", "VAR", "OPT"}
  \/ it.i = "LEAF" /\ LeafAlts /\ Len(it.pool) > 1
  \/ it.i = "N" /\ \E j \in 2..Len(Templates(it.nt)) : Selectable(it.nt, j)

Leaf(it, k) == <<TOK(it.c, it.pool[k].s), SET(it.f, it.pool[k].v)>>

RECURSIVE Flush(_, _)
Flush(w, tp) ==
  IF w = <<>> THEN <<w, tp>>
  ELSE LET it == Head(w) IN
       IF IsChoice(it) THEN <<w, tp>>
       ELSE IF it.i = "N" THEN Flush(Expand(it, Templates(it.nt)[1]) \o Tail(w), tp)
       ELSE IF it.i = "LEAF" THEN Flush(Tail(w), tp \o Leaf(it, 1))
       ELSE Flush(Tail(w), Append(tp, it))

RECURSIVE Rep(_, _, _)
Rep(it, n, k) == IF k > n THEN <<>> ELSE (IF k > 1 THEN it.sep ELSE <<>>) \o <<N("", it.nt)>> \o Rep(it, n, k + 1)
Surf(its) == [k \in 1..Len(its) |-> IF its[k].i = "T" THEN [its[k] EXCEPT !.canon = FALSE] ELSE its[k]]
Canon(its) == [k \in 1..Len(its) |-> IF its[k].i = "T" THEN [its[k] EXCEPT !.surf = FALSE] ELSE its[k]]

Init == LET r == Flush(<<[i |-> "N", f |-> "ROOT", nt |-> StartNT, free |-> StartFree, dense |-> DenseDepth]>>, <<>>)
        IN work = r[1] /\ tape = r[2] /\ budget = Budget

Choose(w2, cost) == /\ cost <= budget
                    /\ LET r == Flush(w2, tape) IN work' = r[1] /\ tape' = r[2]
                    /\ budget' = budget - cost

Step ==
  /\ work # <<>>
  /\ LET it == Head(work) rest == Tail(work) IN
     \/ /\ it.i = "N"
        /\ \E j \in 1..Len(Templates(it.nt)) :
              /\ Selectable(it.nt, j)
              /\ Choose(Expand(it, Templates(it.nt)[j]) \o rest, IF j = 1 \/ it.free THEN 0 ELSE 1)
     \/ /\ it.i = "O"
        /\ IF D(it) > 0 THEN (Choose(<<[dense |-> D(it) - 1] @@ N(it.f, it.nt)>> \o rest, 0) \/ Choose(rest, 1))
           ELSE (Choose(rest, 0) \/ Choose(<<N(it.f, it.nt)>> \o rest, 1))
     \/ /\ it.i = "OPT"
        /\ IF D(it) > 0 THEN (Choose(Mark(it.its, D(it)) \o rest, 0) \/ Choose(rest, 1))
           ELSE (Choose(rest, 0) \/ Choose(it.its \o rest, 1))
     \/ /\ it.i = "L"
        /\ \E n \in it.min..(it.min + 2) :
              \* dense: a list has two elements unless budget is spent on another length
              LET dflt == IF D(it) > 0 THEN (IF it.min > 2 THEN it.min ELSE 2) ELSE it.min
                  cost == IF n >= dflt THEN n - dflt ELSE dflt - n IN
              Choose((IF it.open THEN <<LOPEN(it.f)>> ELSE <<>>) \o Rep(it, n, 1) \o (IF it.open THEN <<LCLOSE>> ELSE <<>>) \o rest, cost)
     \/ /\ it.i = "FLAG"
        /\ \/ Choose(<<SET(it.f, FALSE)>> \o rest, IF D(it) > 0 THEN 1 ELSE 0)
           \/ Choose(<<SET(it.f, TRUE)>> \o it.its \o rest, IF D(it) > 0 THEN 0 ELSE 1)
     \/ /\ it.i = "ENUM"
        /\ \E j \in 1..Len(it.alts) : Choose(<<SET(it.f, it.alts[j].v)>> \o it.alts[j].items \o rest, IF j = 1 THEN 0 ELSE 1)
     \/ /\ it.i = "VAR"
        /\ \E j \in 1..Len(it.alts) :
              Choose((IF j = 1 THEN it.alts[1] ELSE Surf(it.alts[j]) \o Canon(it.alts[1])) \o rest, IF j = 1 THEN 0 ELSE 1)
     \/ /\ it.i = "LEAF"
        /\ \E k \in 1..Len(it.pool) : Choose(Leaf(it, k) \o rest, IF k = 1 THEN 0 ELSE 1)

Spec == Init /\ [][Step]_vars
\* Lexical side condition of G: directly after an identifier-like token, a parameter, ')' or ']' a '.' is a field access,
\* so ".5" there is not a float literal (C14's dot rule, the same in GoogleSQL); such token sequences are not sentences.
SurfToks == SelectSeq(tape, LAMBDA e : e.i = "T" /\ e.surf)
DotClash == LET st == SurfToks IN
  \E k \in 1..(Len(st) - 1) : st[k + 1].s = ".5" /\ (st[k].c \in {"id", "pk", "tn", "param"} \/ st[k].s \in {")", "]"})
Emit == (work = <<>> /\ OutFile # "" /\ ~DotClash) => CSVWrite("%1$s", <<ToJson([start |-> StartNT, wrap |-> WrapOps, tape |-> tape])>>, OutFile)
==============================================================================
