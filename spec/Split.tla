--------------------------------- MODULE Split ---------------------------------
(***************************************************************************)
(* Design model of SplitRawStatements: the loop of split.go as actions over *)
(* the reference lexer's token stream (Take a token, Cut at a ';' token,    *)
(* Final at <eof>), checked against the relational contract used for trace  *)
(* validation (SplitTrace!SplitOK) for every short buffer: the algorithm    *)
(* with "a piece starts at the first comment or token after ';'" satisfies  *)
(* the contract; with "starts at the first token" (the pinned code) TLC     *)
(* finds the comment that lies in no piece.                                 *)
(***************************************************************************)
EXTENDS LexerCore
CONSTANTS Alphabet, MaxLen, PieceStartsAtComment
VARIABLES buf, i, first, pieces, done
vars == <<buf, i, first, pieces, done>>
Strings == UNION {[1..n -> Alphabet] : n \in 0..MaxLen}
Toks == LexAll(buf)
IsSemi(t) == t.k = "p1" /\ t.v = <<59>>
StartOf(t) == IF PieceStartsAtComment /\ t.cs # <<>> THEN t.cs[1].p ELSE t.p

Init == /\ buf \in Strings /\ i = 1 /\ first = 0 /\ pieces = <<>> /\ done = FALSE
Step == /\ ~done /\ Toks[Len(Toks)].k = "<eof>"
        /\ LET t == Toks[i] IN
           IF t.k = "<eof>"
           THEN /\ pieces' = IF t.p # first \/ (PieceStartsAtComment /\ t.cs # <<>> /\ i > 1 /\ IsSemi(Toks[i-1]))
                             THEN Append(pieces, [p |-> first, e |-> t.p]) ELSE pieces
                /\ done' = TRUE /\ UNCHANGED <<buf, i, first>>
           ELSE IF IsSemi(t)
           THEN /\ pieces' = Append(pieces, [p |-> first, e |-> t.p])
                /\ first' = StartOf(Toks[i + 1]) /\ i' = i + 1 /\ UNCHANGED <<buf, done>>
           ELSE /\ i' = i + 1 /\ UNCHANGED <<buf, first, pieces, done>>
Spec == Init /\ [][Step]_vars

\* the contract, over tokens and comments
Items == LET RECURSIVE It(_) It(k) == IF k > Len(Toks) THEN <<>> ELSE
            [j \in 1..Len(Toks[k].cs) |-> [p |-> Toks[k].cs[j].p, e |-> Toks[k].cs[j].e, semi |-> FALSE]] \o
            (IF Toks[k].k = "<eof>" THEN <<>> ELSE <<[p |-> Toks[k].p, e |-> Toks[k].e, semi |-> IsSemi(Toks[k])]>>) \o It(k + 1) IN It(1)
Covered == done => \A x \in 1..Len(Items) : ~Items[x].semi =>
              \E k \in 1..Len(pieces) : pieces[k].p <= Items[x].p /\ Items[x].e <= pieces[k].e
NoSemiInside == done => \A x \in 1..Len(Items) : Items[x].semi =>
              \A k \in 1..Len(pieces) : ~(pieces[k].p <= Items[x].p /\ Items[x].e <= pieces[k].e)
Ordered == \A k \in 1..Len(pieces) : pieces[k].p <= pieces[k].e /\ (k > 1 => pieces[k-1].e < pieces[k].p)
==============================================================================
