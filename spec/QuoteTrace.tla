----------------------------- MODULE QuoteTrace -----------------------------
(* C15: the quoting functions are right inverses of lexing.  One record per call of the real
   token.QuoteSQLString / QuoteSQLBytes / QuoteSQLIdent: [fn, s (argument bytes), q (result bytes),
   rn, rk, rv (what the real lexer made of q: token count, kind and decoded value)].
   The record is accepted iff the REFERENCE lexer reads q as exactly one token of the right kind,
   spanning all of q, whose decoded value is s.  For identifiers "returned unquoted only if not
   reserved and identifier-shaped" follows: an unquoted reserved word lexes as a keyword token and
   an unquoted non-identifier-shaped name does not lex as a single <ident>; it is stated anyway. *)
EXTENDS LexerCore, Json, CSV
CONSTANTS TraceFile, RejectFile
VARIABLES l
Trace == ndJsonDeserialize(TraceFile)

Kind(fn) == CASE fn = "str" -> "<string>" [] fn = "bytes" -> "<bytes>" [] fn = "ident" -> "<ident>"
IdentShaped(s) == Len(s) > 0 /\ IsIdStart(s[1]) /\ \A i \in 1..Len(s) : IsIdPart(s[i])
Match(rec) == LET sp == LexAll(rec.q) IN
  /\ ~rec.pan
  /\ Len(sp) = 2
  /\ sp[1].k = Kind(rec.fn) /\ sp[1].v = rec.s /\ sp[1].p = 0 /\ sp[1].e = Len(rec.q)
  /\ sp[2].k = "<eof>"
  /\ rec.rn = 1 /\ rec.rk = Kind(rec.fn) /\ rec.rv = rec.s      \* the real lexer reads it back, too
  /\ (rec.fn = "ident" /\ rec.q = rec.s) => (IdentShaped(rec.s) /\ UpSeq(rec.s) \notin KwBytes)
Report(i) == CSVWrite("%1$s,%2$s", <<i, "C15">>, RejectFile)
Init == l = 1
Next == l <= Len(Trace) /\ (IF Match(Trace[l]) THEN TRUE ELSE Report(l)) /\ l' = l + 1
Spec == Init /\ [][Next]_l
Accepted == TLCGet("stats").diameter - 1 = Len(Trace)
==============================================================================
