--------------------------------- MODULE Walk ---------------------------------
(***************************************************************************)
(* Design model of ast.Walk: the explicit-stack algorithm of walkMain      *)
(* (pop; a list item pushes its indexed elements in reverse; a node item   *)
(* calls Visit - nil prunes - and pushes the node's fields in reverse)     *)
(* against the recursive definition of "pre-order of the nodes reachable   *)
(* through node-typed fields in declaration order, minus pruned subtrees,  *)
(* with the chain of visitor callbacks (Visit -> Field -> VisitMany ->     *)
(* Index) that leads to each".  Checked for ALL trees with up to           *)
(* MaxNodes nodes over all field layouts and all prune sets.               *)
(***************************************************************************)
EXTENDS Integers, Sequences, FiniteSets, TLC
CONSTANTS MaxNodes
VARIABLES parent, layout, prune, stack, out, done
vars == <<parent, layout, prune, stack, out, done>>

Nodes(n) == 1..n
\* children of x in id order
Kids(par, n, x) == LET S == {c \in 2..n : par[c] = x} IN
  LET RECURSIVE Sorted(_) Sorted(T) == IF T = {} THEN <<>> ELSE LET m == CHOOSE a \in T : \A b \in T : a <= b IN <<m>> \o Sorted(T \ {m}) IN Sorted(S)
\* field layout of a node: "many" (one list field), "singles" (one single field per child), "mixed" (first single, rest in a list)
Fields(par, lay, n, x) ==
  LET ks == Kids(par, n, x) IN
  IF ks = <<>> THEN <<>>
  ELSE CASE lay[x] = "many" -> << [name |-> "L", many |-> TRUE, kids |-> ks] >>
         [] lay[x] = "singles" -> [i \in 1..Len(ks) |-> [name |-> "F", many |-> FALSE, kids |-> <<ks[i]>>]]
         [] OTHER -> << [name |-> "A", many |-> FALSE, kids |-> <<ks[1]>>] >> \o
                     (IF Len(ks) > 1 THEN << [name |-> "R", many |-> TRUE, kids |-> SubSeq(ks, 2, Len(ks))] >> ELSE <<>>)

Init == /\ \E n \in 1..MaxNodes :
             /\ parent \in [2..n -> 1..n] /\ \A c \in 2..n : parent[c] < c
             /\ layout \in [1..n -> {"many", "singles", "mixed"}]
             /\ prune \in SUBSET (1..n)
        /\ stack = << [node |-> 1, nodes |-> <<>>, path |-> <<>>, isList |-> FALSE] >>
        /\ out = <<>> /\ done = FALSE
N == IF DOMAIN parent = {} THEN 1 ELSE 1 + Cardinality(DOMAIN parent)

Rev(s) == [i \in 1..Len(s) |-> s[Len(s) + 1 - i]]
Step ==
  /\ ~done
  /\ IF stack = <<>> THEN done' = TRUE /\ UNCHANGED <<parent, layout, prune, stack, out>>
     ELSE LET top == stack[Len(stack)] rest == SubSeq(stack, 1, Len(stack) - 1) IN
          /\ UNCHANGED <<parent, layout, prune, done>>
          /\ IF top.isList
             THEN \* VisitMany: push the elements in reverse with their index
                  /\ out' = out
                  /\ stack' = rest \o Rev([i \in 1..Len(top.nodes) |-> [node |-> top.nodes[i], nodes |-> <<>>, path |-> top.path \o <<"<VisitMany>", i - 1>>, isList |-> FALSE]])
             ELSE /\ out' = Append(out, <<top.node, top.path>>)
                  /\ IF top.node \in prune THEN stack' = rest
                     ELSE LET fs == Fields(parent, layout, N, top.node) IN
                          stack' = rest \o Rev([i \in 1..Len(fs) |->
                                     IF fs[i].many THEN [node |-> 0, nodes |-> fs[i].kids, path |-> top.path \o <<"<Visit>", fs[i].name>>, isList |-> TRUE]
                                     ELSE [node |-> fs[i].kids[1], nodes |-> <<>>, path |-> top.path \o <<"<Visit>", fs[i].name>>, isList |-> FALSE]])
Spec == Init /\ [][Step]_vars

RECURSIVE Pre(_, _), PreFields(_, _, _), PreList(_, _, _)
Pre(x, path) == IF x \in prune THEN << <<x, path>> >> ELSE << <<x, path>> >> \o PreFields(Fields(parent, layout, N, x), 1, path)
PreFields(fs, k, path) == IF k > Len(fs) THEN <<>>
                          ELSE (IF fs[k].many THEN PreList(fs[k].kids, 1, path \o <<"<Visit>", fs[k].name>>) ELSE Pre(fs[k].kids[1], path \o <<"<Visit>", fs[k].name>>))
                               \o PreFields(fs, k + 1, path)
PreList(ks, i, path) == IF i > Len(ks) THEN <<>> ELSE Pre(ks[i], path \o <<"<VisitMany>", i - 1>>) \o PreList(ks, i + 1, path)

AlgorithmIsDefinition == done => out = Pre(1, <<>>)
OutIsPrefix == Len(out) <= Len(Pre(1, <<>>)) /\ out = SubSeq(Pre(1, <<>>), 1, Len(out))      \* so an early stop yields a prefix (Preorder)
EachOnce == \A i, j \in 1..Len(out) : i # j => out[i][1] # out[j][1]
==============================================================================
