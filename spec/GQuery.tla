-------------------------------- MODULE GQuery -------------------------------
(***************************************************************************)
(* Reference grammar G, part 2: queries (SELECT, set operations, WITH,     *)
(* ORDER BY / LIMIT / FOR UPDATE, pipe operators), FROM clause and joins.  *)
(* From the Spanner query-syntax page and the node documentation.          *)
(*                                                                         *)
(* Shape rules G states because the documentation does:                    *)
(*  - a query with WITH, ORDER BY, LIMIT, FOR UPDATE or pipe operators is  *)
(*    a Query node around the simple or compound query;                    *)
(*  - operands of a set operation are simple queries (SELECT, FROM-query,  *)
(*    parenthesised query); a chain uses ONE operator (else parentheses);  *)
(*  - joins are left associative; the right operand is a simple table      *)
(*    expression; ON / USING is required unless CROSS / comma join, and    *)
(*    optional when the right operand is a path or UNNEST;                 *)
(*  - INNER and OUTER are noise words; a trailing comma of the select list *)
(*    is accepted before FROM and at the end of the statement.             *)
(***************************************************************************)
EXTENDS GExpr

AliasPool == << Same("x"), P("`y z`", "y z"), Same("T1") >>
AliasId == Tmpl("Ident", <<LEAF("Name", "id", AliasPool)>>)
TablePool == << Same("t"), Same("Singers"), P("`my-table`", "my-table") >>
TableId == Tmpl("Ident", <<LEAF("Name", "id", TablePool)>>)
AsAliasOpt == << Tmpl("AsAlias", <<POS("As", TRUE), T("AS"), N("Alias", "AliasId")>>),
                 Tmpl("AsAlias", <<POS("As", FALSE), N("Alias", "AliasId")>>) >>

\* ---- SELECT ------------------------------------------------------------------
AllOrDistinctE == ENUM("AllOrDistinct", <<A("", <<>>), A("ALL", <<T("ALL")>>), A("DISTINCT", <<T("DISTINCT")>>)>>)
SelectAsT == << Tmpl("AsStruct", <<T("AS"), T("STRUCT")>>), Tmpl("AsValue", <<T("AS"), KW("VALUE")>>),
                Tmpl("AsTypeName", <<T("AS"), N("TypeName", "NamedTypeOnly")>>) >>
StarExceptT == << Tmpl("StarModifierExcept", <<T("EXCEPT"), T("("), L("Columns", "Ident", ",", 1), T(")")>>) >>
StarReplaceT == << Tmpl("StarModifierReplace", <<KW("REPLACE"), T("("), L("Columns", "StarReplaceItem", ",", 1), T(")")>>) >>
StarReplaceItemT == << Tmpl("StarModifierReplaceItem", <<N("Expr", Expr), T("AS"), N("Name", "Ident")>>) >>
SelectItemT == <<
  Tmpl("ExprSelectItem", <<N("Expr", Expr)>>),
  Tmpl("Alias", <<N("Expr", Expr), N("As", "AsAliasOpt")>>),
  Tmpl("Star", <<T("*"), O("Except", "StarExcept"), O("Replace", "StarReplace")>>),
  Tmpl("DotStar", <<N("Expr", "E1"), T("."), T("*"), O("Except", "StarExcept"), O("Replace", "StarReplace")>>) >>
TrailingComma == VAR(<< <<>>, <<TN(",")>> >>)
SelectT ==
  Tmpl("Select", <<T("SELECT"), AllOrDistinctE, O("As", "SelectAs"), L("Results", "SelectItem", ",", 1),
                   O("From", "From"), O("Where", "Where"), O("GroupBy", "GroupBy"), O("Having", "Having")>>)
\* the trailing comma of the select list: before FROM, or at the very end of the statement (top-level only)
SelectTrailingFrom ==
  Tmpl("Select", <<T("SELECT"), L("Results", "SelectItem", ",", 1), VAR(<< <<>>, <<TN(",")>> >>), N("From", "From")>>)
FromT == << Tmpl("From", <<T("FROM"), N("Source", "TableExprTop")>>) >>
WhereT == << Tmpl("Where", <<T("WHERE"), N("Expr", Expr)>>) >>
GroupByT == << Tmpl("GroupBy", <<T("GROUP"), T("BY"), L("Exprs", Expr, ",", 1)>>) >>
HavingT == << Tmpl("Having", <<T("HAVING"), N("Expr", Expr)>>) >>

\* ---- query expressions -----------------------------------------------------------
SubQueryT == Tmpl("SubQuery", <<T("("), N("Query", "QueryExpr"), T(")")>>)
FromQueryT == Tmpl("FromQuery", <<N("From", "From")>>)
SimpleQueryT == <<SelectT, SubQueryT, SelectTrailingFrom>>
SetOps == <<"UNION", "INTERSECT", "EXCEPT">>
Compound(op, ad) == Tmpl("CompoundQuery", <<SET("Op", op), SET("AllOrDistinct", ad), LS("Queries", "SimpleQuery", <<T(op), T(ad)>>, 2)>>)
CompoundT == << Compound("UNION", "ALL"), Compound("UNION", "DISTINCT"), Compound("INTERSECT", "ALL"), Compound("INTERSECT", "DISTINCT"),
                Compound("EXCEPT", "ALL"), Compound("EXCEPT", "DISTINCT") >>
OrderByT == << Tmpl("OrderBy", <<T("ORDER"), T("BY"), L("Items", "OrderByItem", ",", 1)>>) >>
OrderByItemT == << Tmpl("OrderByItem", <<N("Expr", Expr), O("Collate", "Collate"),
                      ENUM("Dir", <<A("", <<POS("DirPos", FALSE)>>), A("ASC", <<POS("DirPos", TRUE), T("ASC")>>), A("DESC", <<POS("DirPos", TRUE), T("DESC")>>)>>)>>) >>
CollateT == << Tmpl("Collate", <<T("COLLATE"), N("Value", "StringValue")>>) >>
StringValueT == << StringLit, ParamT >>
IntValueT == << IntLit, ParamT, Tmpl("CastIntValue", <<T("CAST"), T("("), N("Expr", "IntOrParam"), T("AS"), KW("INT64"), T(")")>>) >>
IntOrParamT == << IntLit, ParamT >>
NumValueT == << IntLit, FloatLit, ParamT,
                Tmpl("CastNumValue", <<T("CAST"), T("("), N("Expr", "NumOrParam"), T("AS"), ENUM("Type", <<A("INT64", <<KW("INT64")>>), A("FLOAT64", <<KW("FLOAT64")>>)>>), T(")")>>) >>
NumOrParamT == << IntLit, FloatLit, ParamT >>
LimitT == << Tmpl("Limit", <<T("LIMIT"), N("Count", "IntValue"), O("Offset", "Offset")>>) >>
OffsetT == << Tmpl("Offset", <<KW("OFFSET"), N("Value", "IntValue")>>) >>
ForUpdateT == << Tmpl("ForUpdate", <<T("FOR"), KW("UPDATE")>>) >>
PipeT == << Tmpl("PipeWhere", <<T("|>"), T("WHERE"), N("Expr", Expr)>>),
            Tmpl("PipeSelect", <<T("|>"), T("SELECT"), AllOrDistinctE, O("As", "SelectAs"), L("Results", "SelectItem", ",", 1)>>) >>
WithT == << Tmpl("With", <<T("WITH"), L("CTEs", "CTE", ",", 1)>>) >>
CTET == << Tmpl("CTE", <<N("Name", "AliasId"), T("AS"), T("("), N("QueryExpr", "QueryExpr"), T(")")>>) >>
Pipes(mn) == L("PipeOperators", "Pipe", "", mn)
\* a Query node exists iff at least one of WITH / ORDER BY / LIMIT / FOR UPDATE / pipe operator is there
QueryT == <<
  Tmpl("Query", <<N("Query", "QueryBody"), N("OrderBy", "OrderBy"), O("Limit", "Limit"), O("ForUpdate", "ForUpdate"), Pipes(0)>>),
  Tmpl("Query", <<N("Query", "QueryBody"), N("Limit", "Limit"), O("ForUpdate", "ForUpdate"), Pipes(0)>>),
  Tmpl("Query", <<N("Query", "QueryBody"), N("ForUpdate", "ForUpdate"), Pipes(0)>>),
  Tmpl("Query", <<N("Query", "QueryPipeBody"), Pipes(1)>>),
  Tmpl("Query", <<N("With", "With"), N("Query", "QueryBody"), O("OrderBy", "OrderBy"), O("Limit", "Limit"), O("ForUpdate", "ForUpdate"), Pipes(0)>>) >>
QueryBodyT == SimpleQueryT \o CompoundT
QueryPipeBodyT == <<FromQueryT>> \o QueryBodyT
QueryExprT == QueryBodyT \o QueryT \o <<FromQueryT>>
\* Sub-queries in an expression or in table position.  '((SELECT ..))' may be read as a parenthesised scalar sub-query, and
\* FROM-first queries are documented as statements / CTE bodies only: G leaves FROM-first queries out of such sub-queries
\* at every parenthesis depth and in every operand of a set operation (the NF family below).
SubQueryNFT == Tmpl("SubQuery", <<T("("), N("Query", "QueryExprNoFrom"), T(")")>>)
SimpleQueryNFT == <<SelectT, SubQueryNFT, SelectTrailingFrom>>
CompoundNF(op, ad) == Tmpl("CompoundQuery", <<SET("Op", op), SET("AllOrDistinct", ad), LS("Queries", "SimpleQueryNF", <<T(op), T(ad)>>, 2)>>)
CompoundNFT == << CompoundNF("UNION", "ALL"), CompoundNF("UNION", "DISTINCT"), CompoundNF("INTERSECT", "ALL"), CompoundNF("INTERSECT", "DISTINCT"),
                  CompoundNF("EXCEPT", "ALL"), CompoundNF("EXCEPT", "DISTINCT") >>
QueryBodyNFT == SimpleQueryNFT \o CompoundNFT
QueryNoFromT == <<
  Tmpl("Query", <<N("Query", "QueryBodyNF"), N("OrderBy", "OrderBy"), O("Limit", "Limit"), O("ForUpdate", "ForUpdate"), Pipes(0)>>),
  Tmpl("Query", <<N("Query", "QueryBodyNF"), N("Limit", "Limit"), O("ForUpdate", "ForUpdate"), Pipes(0)>>),
  Tmpl("Query", <<N("Query", "QueryBodyNF"), N("ForUpdate", "ForUpdate"), Pipes(0)>>),
  Tmpl("Query", <<N("Query", "QueryBodyNF"), Pipes(1)>>),
  Tmpl("Query", <<N("With", "With"), N("Query", "QueryBodyNF"), O("OrderBy", "OrderBy"), O("Limit", "Limit"), O("ForUpdate", "ForUpdate"), Pipes(0)>>) >>
SubQueryBodyT == <<SelectT>> \o CompoundNFT \o QueryNoFromT
\* the trailing comma at the very end of a statement
SelectTrailingEnd == Tmpl("Select", <<T("SELECT"), L("Results", "SelectItem", ",", 1), VAR(<< <<>>, <<TN(",")>> >>)>>)
\* ... and of a pipe SELECT that is the last operator of the statement (parseSelectResults is shared)
PipeSelectTrailT == << Tmpl("PipeSelect", <<T("|>"), T("SELECT"), L("Results", "SelectItem", ",", 1), VAR(<< <<>>, <<TN(",")>> >>)>>) >>
QueryPipeTrailT == << Tmpl("Query", <<N("Query", "QueryPipeBody"), LOPEN("PipeOperators"), LI("Pipe", "", 0), N("", "PipeSelectTrail"), LCLOSE>>) >>
QueryStatementT == << Tmpl("QueryStatement", <<O("Hint", "Hint"), N("Query", "QueryExpr")>>),
                      Tmpl("QueryStatement", <<N("Query", "SelectTrailingEnd")>>),
                      Tmpl("QueryStatement", <<N("Query", "QueryPipeTrail")>>) >>

\* focused start symbols (the budget is spent below the clause under study)
QSFromT == << Tmpl("QueryStatement", <<N("Query", "SelFrom")>>) >>
SelFromT == << Tmpl("Select", <<T("SELECT"), L("Results", "SelectItem", ",", 1), N("From", "From"), O("Where", "Where")>>) >>
QSSuffixT == << Tmpl("QueryStatement", <<N("Query", "QueryOnly")>>) >>

\* ---- FROM clause -------------------------------------------------------------------
TableSampleT == << Tmpl("TableSample", <<T("TABLESAMPLE"), ENUM("Method", <<A("BERNOULLI", <<KW("BERNOULLI")>>), A("RESERVOIR", <<KW("RESERVOIR")>>)>>), N("Size", "TableSampleSize")>>) >>
TableSampleSizeT == << Tmpl("TableSampleSize", <<T("("), N("Value", "NumValue"), ENUM("Unit", <<A("PERCENT", <<KW("PERCENT")>>), A("ROWS", <<T("ROWS")>>)>>), T(")")>>) >>
WithOffsetT == << Tmpl("WithOffset", <<T("WITH"), KW("OFFSET"), O("As", "AsAliasOpt")>>) >>
TablePathT == << Tmpl("Path", <<LOPEN("Idents"), N("", "TableId"), T("."), LI("FieldId", ".", 1), LCLOSE>>) >>
TVFNameT == << Tmpl("Path", <<L("Idents", "FuncId", ".", 1)>>) >>
TVFArgT == << Tmpl("ExprArg", <<N("Expr", Expr)>>), Tmpl("TableArg", <<KW("TABLE"), N("Name", "FieldPath")>>), Tmpl("ModelArg", <<KW("MODEL"), N("Name", "FieldPath")>>) >>
TableNameT == Tmpl("TableName", <<N("Table", "TableId"), O("Hint", "Hint"), O("As", "AsAliasOpt"), O("Sample", "TableSample")>>)
PathTableT == Tmpl("PathTableExpr", <<N("Path", "TablePath"), O("Hint", "Hint"), O("As", "AsAliasOpt"), O("WithOffset", "WithOffset"), O("Sample", "TableSample")>>)
UnnestT == Tmpl("Unnest", <<T("UNNEST"), T("("), N("Expr", Expr), T(")"), O("Hint", "Hint"), O("As", "AsAliasOpt"), O("WithOffset", "WithOffset"), O("Sample", "TableSample")>>)
\* FROM-first queries are documented as statements / CTE bodies, not as parenthesised table sub-queries
SubQueryTableT == Tmpl("SubQueryTableExpr", <<T("("), N("Query", "QueryExprNoFrom"), T(")"), O("As", "AsAliasOpt"), O("Sample", "TableSample")>>)
ParenTableT == Tmpl("ParenTableExpr", <<T("("), N("Source", "JoinOnly"), T(")"), O("Sample", "TableSample")>>)
TVFT == << Tmpl("TVFCallExpr", <<N("Name", "TVFName"), T("("), L("Args", "TVFArg", ",", 0), T(")"), O("Hint", "Hint"), O("Sample", "TableSample")>>),
           Tmpl("TVFCallExpr", <<N("Name", "TVFName"), T("("), L("Args", "TVFArg", ",", 1), T(","), L("NamedArgs", "NamedArg", ",", 1), T(")")>>) >>
SimpleTableT == <<TableNameT, PathTableT, UnnestT, SubQueryTableT, ParenTableT>> \o TVFT
\* every table kind with all of its optional suffixes present at once (focused start QS_Table: the suffixes' order and
\* the positions they contribute to are exercised jointly without spending budget on them)
SimpleTableFullT == <<
  Tmpl("TableName", <<N("Table", "TableId"), N("Hint", "Hint"), N("As", "AsAliasOpt"), N("Sample", "TableSample")>>),
  Tmpl("PathTableExpr", <<N("Path", "TablePath"), N("Hint", "Hint"), N("As", "AsAliasOpt"), N("WithOffset", "WithOffset"), N("Sample", "TableSample")>>),
  Tmpl("Unnest", <<T("UNNEST"), T("("), N("Expr", Expr), T(")"), N("Hint", "Hint"), N("As", "AsAliasOpt"), N("WithOffset", "WithOffset"), N("Sample", "TableSample")>>),
  Tmpl("SubQueryTableExpr", <<T("("), N("Query", "QueryExprNoFrom"), T(")"), N("As", "AsAliasOpt"), N("Sample", "TableSample")>>),
  Tmpl("ParenTableExpr", <<T("("), N("Source", "JoinOnly"), T(")"), N("Sample", "TableSample")>>),
  Tmpl("TVFCallExpr", <<N("Name", "TVFName"), T("("), L("Args", "TVFArg", ",", 0), T(")"), N("Hint", "Hint"), N("Sample", "TableSample")>>) >>
CondT == << Tmpl("On", <<T("ON"), N("Expr", Expr)>>), Tmpl("Using", <<T("USING"), T("("), L("Idents", "Ident", ",", 1), T(")")>>) >>
MethodE == ENUM("Method", <<A("", <<>>), A("HASH", <<T("HASH")>>), A("LOOKUP", <<KW("LOOKUP")>>)>>)
\* join operators; the first spelling is what SQL() prints
JoinOpE == ENUM("Op", <<
  A("INNER JOIN", <<VAR(<< <<T("INNER")>>, <<>> >>), MethodE, T("JOIN")>>),
  A("LEFT OUTER JOIN", <<T("LEFT"), VAR(<< <<T("OUTER")>>, <<>> >>), MethodE, T("JOIN")>>),
  A("RIGHT OUTER JOIN", <<T("RIGHT"), VAR(<< <<T("OUTER")>>, <<>> >>), MethodE, T("JOIN")>>),
  A("FULL OUTER JOIN", <<T("FULL"), VAR(<< <<T("OUTER")>>, <<>> >>), MethodE, T("JOIN")>>) >>)
JoinT(left) == <<
  Tmpl("Join", <<N("Left", left), JoinOpE, O("Hint", "Hint"), N("Right", "JoinRightCond"), N("Cond", "Cond")>>),
  Tmpl("Join", <<N("Left", left), JoinOpE, O("Hint", "Hint"), N("Right", "JoinRightFree"), O("Cond", "Cond")>>),
  Tmpl("Join", <<N("Left", left), SET("Op", "CROSS JOIN"), T("CROSS"), MethodE, T("JOIN"), O("Hint", "Hint"), N("Right", "SimpleTable")>>) >>
CommaJoinT == Tmpl("Join", <<N("Left", "TableExprTop"), SET("Op", ","), T(","), N("Right", "SimpleTable")>>)
JoinRightCondT == <<TableNameT, SubQueryTableT, ParenTableT>> \o TVFT
JoinRightFreeT == <<PathTableT, UnnestT>>
TableExprTopT == SimpleTableT \o JoinT("TableExprTop") \o <<CommaJoinT>>
JoinOnlyT == JoinT("TableExprNested")
TableExprNestedT == SimpleTableT \o JoinT("TableExprNested")

QueryTemplates(nt) ==
  CASE nt = "AliasId" -> <<AliasId>> [] nt = "TableId" -> <<TableId>> [] nt = "AsAliasOpt" -> AsAliasOpt
    [] nt = "SelectAs" -> SelectAsT [] nt = "StarExcept" -> StarExceptT [] nt = "StarReplace" -> StarReplaceT [] nt = "StarReplaceItem" -> StarReplaceItemT
    [] nt = "SelectItem" -> SelectItemT [] nt = "From" -> FromT [] nt = "Where" -> WhereT [] nt = "GroupBy" -> GroupByT [] nt = "Having" -> HavingT
    [] nt = "SimpleQuery" -> SimpleQueryT [] nt = "QueryBody" -> QueryBodyT [] nt = "QueryPipeBody" -> QueryPipeBodyT [] nt = "QueryExpr" -> QueryExprT
    [] nt = "SubQueryBody" -> SubQueryBodyT [] nt = "QueryExprNoFrom" -> QueryBodyNFT \o QueryNoFromT [] nt = "SimpleQueryNF" -> SimpleQueryNFT [] nt = "QueryBodyNF" -> QueryBodyNFT [] nt = "SelectTrailingEnd" -> <<SelectTrailingEnd>>
    [] nt = "PipeSelectTrail" -> PipeSelectTrailT [] nt = "QueryPipeTrail" -> QueryPipeTrailT
    [] nt = "OrderBy" -> OrderByT [] nt = "OrderByItem" -> OrderByItemT [] nt = "Collate" -> CollateT [] nt = "StringValue" -> StringValueT
    [] nt = "IntValue" -> IntValueT [] nt = "IntOrParam" -> IntOrParamT [] nt = "NumValue" -> NumValueT [] nt = "NumOrParam" -> NumOrParamT
    [] nt = "Limit" -> LimitT [] nt = "Offset" -> OffsetT [] nt = "ForUpdate" -> ForUpdateT [] nt = "Pipe" -> PipeT [] nt = "With" -> WithT [] nt = "CTE" -> CTET
    [] nt = "QueryStatement" -> QueryStatementT [] nt = "QS_From" -> QSFromT [] nt = "SelFrom" -> SelFromT
    [] nt = "QS_Suffix" -> QSSuffixT [] nt = "QueryOnly" -> QueryT
    [] nt = "TableSample" -> TableSampleT [] nt = "TableSampleSize" -> TableSampleSizeT [] nt = "WithOffset" -> WithOffsetT
    [] nt = "TablePath" -> TablePathT [] nt = "TVFName" -> TVFNameT [] nt = "TVFArg" -> TVFArgT
    [] nt = "SimpleTable" -> SimpleTableT [] nt = "SimpleTableFull" -> SimpleTableFullT [] nt = "Cond" -> CondT [] nt = "JoinRightCond" -> JoinRightCondT [] nt = "JoinRightFree" -> JoinRightFreeT
    [] nt = "TableExprTop" -> TableExprTopT [] nt = "JoinOnly" -> JoinOnlyT [] nt = "TableExprNested" -> TableExprNestedT
    [] OTHER -> <<>>
==============================================================================
