---------------------------- MODULE ObserveTrace ----------------------------
(* C05: node positions are sound.  One record per accepted parse:
     [buf, err, nodes: Seq(<<kind, pos, end, parent>>)]   (reflective pre-order, parent = index or 0)
   Token boundaries come from the REFERENCE lexer (LexerCore.tla), not from the tree:
     0 <= pos < end <= len;  pos is the start of a token, end the end of a token (or the middle of a
     '>>' that closes two type brackets);  every child lies inside its parent;  the children of a
     node appear in source order without overlap (CreateTable's children exempt, as upstream). *)
EXTENDS LexerCore, Json, CSV
CONSTANTS TraceFile, RejectFile
VARIABLES l
Trace == ndJsonDeserialize(TraceFile)

Starts(ts) == {ts[i].p : i \in 1..(Len(ts) - 1)} \cup {ts[i].p + 1 : i \in {j \in 1..(Len(ts) - 1) : ts[j].k = "p2" /\ ts[j].v = <<62, 62>>}}
Ends(ts)   == {ts[i].e : i \in 1..(Len(ts) - 1)} \cup {ts[i].p + 1 : i \in {j \in 1..(Len(ts) - 1) : ts[j].k = "p2" /\ ts[j].v \in {<<62, 62>>, <<60, 62>>}}}

Sound(rec) ==
  LET ts == LexAll(rec.buf)
      N == rec.nodes
      n == Len(rec.buf)
      st == Starts(ts) en == Ends(ts) IN
  /\ ts[Len(ts)].k = "<eof>"
  /\ \A i \in 1..Len(N) :
       LET k == N[i][1] p == N[i][2] e == N[i][3] par == N[i][4] IN
       /\ 0 <= p /\ p < e /\ e <= n
       /\ p \in st /\ e \in en
       /\ (par > 0 => (N[par][2] <= p /\ e <= N[par][3]))
  \* siblings: consecutive nodes with the same parent, in reflective (declaration) order
  /\ \A i, j \in 1..Len(N) :
       (i < j /\ N[i][4] = N[j][4] /\ N[i][4] > 0 /\ N[N[i][4]][1] # "CreateTable"
        /\ ~\E m \in (i+1)..(j-1) : N[m][4] = N[i][4]) => N[i][3] <= N[j][2]
Report(i) == CSVWrite("%1$s,%2$s", <<i, "C05">>, RejectFile)
Init == l = 1
Next == l <= Len(Trace) /\ (IF Sound(Trace[l]) THEN TRUE ELSE Report(l)) /\ l' = l + 1
Spec == Init /\ [][Next]_l
Accepted == TLCGet("stats").diameter - 1 = Len(Trace)
==============================================================================
