--------------------------------- MODULE Sched ---------------------------------
(***************************************************************************)
(* C18: schedules of concurrent calls.  K workers, each a straight line of *)
(* G gate points (one per token fetch of its own Parser/Lexer/File value); *)
(* package-level tables are read-only after init; the lazily built line    *)
(* table belongs to the worker's own File.  TLC enumerates every           *)
(* interleaving; each complete schedule is written out and replayed by the *)
(* harness, whose hook sink is the scheduler gate.                         *)
(* The model also states WHY results cannot depend on the schedule: every  *)
(* step reads and writes only the worker's own state (Own), shared state   *)
(* (Shared) is never written.                                              *)
(***************************************************************************)
EXTENDS Integers, Sequences, TLC, Json, CSV
CONSTANTS K, G, OutFile
VARIABLES pc, own, shared, sched
vars == <<pc, own, shared, sched>>

Init == pc = [w \in 1..K |-> 0] /\ own = [w \in 1..K |-> 0] /\ shared = "tables" /\ sched = <<>>
Step(w) == /\ pc[w] < G
           /\ pc' = [pc EXCEPT ![w] = @ + 1]
           /\ own' = [own EXCEPT ![w] = @ + 1]          \* a token fetch advances the worker's own cursor only
           /\ UNCHANGED shared                            \* keyword map, type-name tables: read-only after init
           /\ sched' = Append(sched, w)
Next == \E w \in 1..K : Step(w)
Spec == Init /\ [][Next]_vars

Done == \A w \in 1..K : pc[w] = G
\* the result of a worker is a function of its own steps only
Independent == \A w \in 1..K : own[w] = pc[w]
SharedReadOnly == [][shared' = shared]_vars
Emit == (Done /\ OutFile # "") => CSVWrite("%1$s", <<ToJson(sched)>>, OutFile)
==============================================================================
