------------------------------- MODULE LexerCore ---------------------------
(***************************************************************************)
(* Reference lexer for Spanner GoogleSQL, written from the lexical-        *)
(* structure documentation (and the ZetaSQL tokenizer notes quoted in      *)
(* lexer.go), NOT from consumeToken.  Bytes are integers 0..255; buffers   *)
(* are sequences of bytes.  The module has three layers:                   *)
(*   1. pure scanning operators (Trivia, Number, Quoted, Token, LexAll)    *)
(*      used by every trace specification,                                 *)
(*   2. one lexer step Step(b, st, noPanic) over an explicit state record, *)
(*      in panic and in no-panic (recovery) mode,                          *)
(*   3. the state machine (NextToken / NextTokenNoPanic / Clone / Restore /*)
(*      AgainAtEof) with the C13 invariants, model-checked by LexGen.      *)
(***************************************************************************)
EXTENDS Integers, Sequences, FiniteSets, TLC

Ascii == " !\"#$%&'()*+,-./0123456789:;<=>?@ABCDEFGHIJKLMNOPQRSTUVWXYZ[\\]^_`abcdefghijklmnopqrstuvwxyz{|}~"
Code(ch) == 31 + (CHOOSE i \in 1..95 : SubSeq(Ascii, i, i) = ch)
Bytes(s) == [i \in 1..Len(s) |-> Code(SubSeq(s, i, i))]

\* The reserved keywords of the lexical-structure page.
Keywords == {"ALL","AND","ANY","ARRAY","AS","ASC","ASSERT_ROWS_MODIFIED","AT","BETWEEN","BY","CASE","CAST",
  "COLLATE","CONTAINS","CREATE","CROSS","CUBE","CURRENT","DEFAULT","DEFINE","DESC","DISTINCT","ELSE","END",
  "ENUM","ESCAPE","EXCEPT","EXCLUDE","EXISTS","EXTRACT","FALSE","FETCH","FOLLOWING","FOR","FROM","FULL",
  "GRAPH_TABLE","GROUP","GROUPING","GROUPS","HASH","HAVING","IGNORE","IF","IN","INNER","INTERSECT","INTERVAL",
  "INTO","IS","JOIN","LATERAL","LEFT","LIKE","LIMIT","LOOKUP","MERGE","NATURAL","NEW","NO","NOT","NULL","NULLS",
  "OF","ON","OR","ORDER","OUTER","OVER","PARTITION","PRECEDING","PROTO","RANGE","RECURSIVE","RESPECT","RIGHT",
  "ROLLUP","ROWS","SELECT","SET","SOME","STRUCT","TABLESAMPLE","THEN","TO","TREAT","TRUE","UNBOUNDED","UNION",
  "UNNEST","USING","WHEN","WHERE","WINDOW","WITH","WITHIN"}
\* The same table as byte sequences (written out: TLC evaluates the set comprehension lazily and would
\* rebuild it on every membership test).  The ASSUME ties it to Keywords.
KwBytes == {
  <<65,76,76>>,
  <<65,78,68>>,
  <<65,78,89>>,
  <<65,82,82,65,89>>,
  <<65,83>>,
  <<65,83,67>>,
  <<65,83,83,69,82,84,95,82,79,87,83,95,77,79,68,73,70,73,69,68>>,
  <<65,84>>,
  <<66,69,84,87,69,69,78>>,
  <<66,89>>,
  <<67,65,83,69>>,
  <<67,65,83,84>>,
  <<67,79,76,76,65,84,69>>,
  <<67,79,78,84,65,73,78,83>>,
  <<67,82,69,65,84,69>>,
  <<67,82,79,83,83>>,
  <<67,85,66,69>>,
  <<67,85,82,82,69,78,84>>,
  <<68,69,70,65,85,76,84>>,
  <<68,69,70,73,78,69>>,
  <<68,69,83,67>>,
  <<68,73,83,84,73,78,67,84>>,
  <<69,76,83,69>>,
  <<69,78,68>>,
  <<69,78,85,77>>,
  <<69,83,67,65,80,69>>,
  <<69,88,67,69,80,84>>,
  <<69,88,67,76,85,68,69>>,
  <<69,88,73,83,84,83>>,
  <<69,88,84,82,65,67,84>>,
  <<70,65,76,83,69>>,
  <<70,69,84,67,72>>,
  <<70,79,76,76,79,87,73,78,71>>,
  <<70,79,82>>,
  <<70,82,79,77>>,
  <<70,85,76,76>>,
  <<71,82,65,80,72,95,84,65,66,76,69>>,
  <<71,82,79,85,80>>,
  <<71,82,79,85,80,73,78,71>>,
  <<71,82,79,85,80,83>>,
  <<72,65,83,72>>,
  <<72,65,86,73,78,71>>,
  <<73,71,78,79,82,69>>,
  <<73,70>>,
  <<73,78>>,
  <<73,78,78,69,82>>,
  <<73,78,84,69,82,83,69,67,84>>,
  <<73,78,84,69,82,86,65,76>>,
  <<73,78,84,79>>,
  <<73,83>>,
  <<74,79,73,78>>,
  <<76,65,84,69,82,65,76>>,
  <<76,69,70,84>>,
  <<76,73,75,69>>,
  <<76,73,77,73,84>>,
  <<76,79,79,75,85,80>>,
  <<77,69,82,71,69>>,
  <<78,65,84,85,82,65,76>>,
  <<78,69,87>>,
  <<78,79>>,
  <<78,79,84>>,
  <<78,85,76,76>>,
  <<78,85,76,76,83>>,
  <<79,70>>,
  <<79,78>>,
  <<79,82>>,
  <<79,82,68,69,82>>,
  <<79,85,84,69,82>>,
  <<79,86,69,82>>,
  <<80,65,82,84,73,84,73,79,78>>,
  <<80,82,69,67,69,68,73,78,71>>,
  <<80,82,79,84,79>>,
  <<82,65,78,71,69>>,
  <<82,69,67,85,82,83,73,86,69>>,
  <<82,69,83,80,69,67,84>>,
  <<82,73,71,72,84>>,
  <<82,79,76,76,85,80>>,
  <<82,79,87,83>>,
  <<83,69,76,69,67,84>>,
  <<83,69,84>>,
  <<83,79,77,69>>,
  <<83,84,82,85,67,84>>,
  <<84,65,66,76,69,83,65,77,80,76,69>>,
  <<84,72,69,78>>,
  <<84,79>>,
  <<84,82,69,65,84>>,
  <<84,82,85,69>>,
  <<85,78,66,79,85,78,68,69,68>>,
  <<85,78,73,79,78>>,
  <<85,78,78,69,83,84>>,
  <<85,83,73,78,71>>,
  <<87,72,69,78>>,
  <<87,72,69,82,69>>,
  <<87,73,78,68,79,87>>,
  <<87,73,84,72>>,
  <<87,73,84,72,73,78>>}
ASSUME KwBytes = {Bytes(k) : k \in Keywords}

IsDigit(c)   == c >= 48 /\ c <= 57
IsOctal(c)   == c >= 48 /\ c <= 55
IsHex(c)     == IsDigit(c) \/ (c >= 97 /\ c <= 102) \/ (c >= 65 /\ c <= 70)
IsLower(c)   == c >= 97 /\ c <= 122
IsUpper(c)   == c >= 65 /\ c <= 90
IsIdStart(c) == IsLower(c) \/ IsUpper(c) \/ c = 95
IsIdPart(c)  == IsIdStart(c) \/ IsDigit(c)
IsSpace(c)   == c \in {32, 9, 10, 11, 12, 13}
Up(c)        == IF IsLower(c) THEN c - 32 ELSE c
UpSeq(s)     == [k \in 1..Len(s) |-> Up(s[k])]
HexVal(c)    == IF IsDigit(c) THEN c - 48 ELSE IF c >= 97 THEN c - 87 ELSE c - 55

\* ---------------------------------------------------------------------------
\* All scanning operators take the buffer explicitly so that they can be used
\* both from the state machine and from trace specifications.
\* Indices are 1-based; "i" is the index of the next unread byte.
\* ---------------------------------------------------------------------------
At(b, i) == IF i >= 1 /\ i <= Len(b) THEN b[i] ELSE -1

\* Unicode white space written in UTF-8 (U+0085, U+00A0, U+1680, U+2000..U+200A, U+2028, U+2029,
\* U+202F, U+205F, U+3000).  WsLen = number of bytes of the white-space character at i, or 0.
WsLen(b, i) ==
  LET c == At(b, i) d == At(b, i + 1) e == At(b, i + 2) IN
  IF IsSpace(c) THEN 1
  ELSE IF c = 194 /\ d \in {133, 160} THEN 2
  ELSE IF c = 225 /\ d = 154 /\ e = 128 THEN 3
  ELSE IF c = 226 /\ d = 128 /\ ((e >= 128 /\ e <= 138) \/ e \in {168, 169, 175}) THEN 3
  ELSE IF c = 226 /\ d = 129 /\ e = 159 THEN 3
  ELSE IF c = 227 /\ d = 128 /\ e = 128 THEN 3
  ELSE 0

RECURSIVE ScanWhileIdPart(_, _)
ScanWhileIdPart(b, i) == IF IsIdPart(At(b, i)) THEN ScanWhileIdPart(b, i + 1) ELSE i
RECURSIVE ScanDigits(_, _)
ScanDigits(b, i) == IF IsDigit(At(b, i)) THEN ScanDigits(b, i + 1) ELSE i
RECURSIVE ScanHex(_, _)
ScanHex(b, i) == IF IsHex(At(b, i)) THEN ScanHex(b, i + 1) ELSE i
RECURSIVE ScanSpaces(_, _)
ScanSpaces(b, i) == LET n == WsLen(b, i) IN IF n > 0 THEN ScanSpaces(b, i + n) ELSE i
RECURSIVE ScanLine(_, _)   \* to just after the next newline, or end of input
ScanLine(b, i) == IF i > Len(b) THEN i ELSE IF b[i] = 10 THEN i + 1 ELSE ScanLine(b, i + 1)
RECURSIVE ScanBlock(_, _)  \* returns index just after "*/", or 0 if unterminated
ScanBlock(b, i) == IF i > Len(b) THEN 0
                   ELSE IF b[i] = 42 /\ At(b, i + 1) = 47 THEN i + 2 ELSE ScanBlock(b, i + 1)

\* Comment starting at i?  returns <<kind, end>>; kind \in {"none","ok","unclosed"}
CommentAt(b, i) ==
  LET c == At(b, i) d == At(b, i + 1) IN
  IF c = 35 \/ (c = 45 /\ d = 45) \/ (c = 47 /\ d = 47) THEN <<"ok", ScanLine(b, i)>>
  ELSE IF c = 47 /\ d = 42 THEN LET e == ScanBlock(b, i + 2) IN
       IF e = 0 THEN <<"unclosed", Len(b) + 1>> ELSE <<"ok", e>>
  ELSE <<"none", i>>

\* Trivia: returns [ok, start (of token), comments (seq of [p,e,sp] 0-based half-open), spaceFrom]
RECURSIVE Trivia(_, _, _)
Trivia(b, i, cs) ==
  LET j == ScanSpaces(b, i) c == CommentAt(b, j) IN
  IF c[1] = "none" THEN [ok |-> TRUE, start |-> j, comments |-> cs, spaceFrom |-> i]
  ELSE IF c[1] = "unclosed" THEN [ok |-> FALSE, start |-> j, comments |-> cs, spaceFrom |-> i]
  ELSE Trivia(b, c[2], Append(cs, [p |-> j - 1, e |-> c[2] - 1, sp |-> i - 1]))

\* ---- numbers -------------------------------------------------------------
\* returns [kind |-> "int"|"float"|"err", end, base]
Number(b, i) ==
  LET hex == At(b, i) = 48 /\ At(b, i + 1) \in {120, 88} /\ IsHex(At(b, i + 2)) IN
  IF hex THEN LET e == ScanHex(b, i + 2) IN
       [kind |-> IF IsIdPart(At(b, e)) THEN "err" ELSE "int", end |-> e, base |-> 16]
  ELSE LET e1 == ScanDigits(b, i)                       \* integer part (may be empty when starting with '.')
           hasDot == At(b, e1) = 46
           e2 == IF hasDot THEN ScanDigits(b, e1 + 1) ELSE e1
           expSign == IF At(b, e2) \in {69, 101} THEN (IF At(b, e2 + 1) \in {43, 45} THEN e2 + 2 ELSE e2 + 1) ELSE 0
           hasExp == expSign # 0 /\ IsDigit(At(b, expSign))
           e3 == IF hasExp THEN ScanDigits(b, expSign) ELSE e2
           isInt == ~hasDot /\ ~hasExp
       IN [kind |-> IF IsIdPart(At(b, e3)) THEN "err" ELSE IF isInt THEN "int" ELSE "float", end |-> e3, base |-> 10]

\* ---- quoted content --------------------------------------------------------
Utf8(u) == IF u < 128 THEN <<u>>
           ELSE IF u < 2048 THEN <<192 + (u \div 64), 128 + (u % 64)>>
           ELSE IF u < 65536 THEN <<224 + (u \div 4096), 128 + ((u \div 64) % 64), 128 + (u % 64)>>
           ELSE <<240 + (u \div 262144), 128 + ((u \div 4096) % 64), 128 + ((u \div 64) % 64), 128 + (u % 64)>>
RECURSIVE HexNum(_, _, _, _)
\* saturating above the Unicode range (TLC integers are 32 bit): once > 0x10FFFF the value stays out of range
HexNum(b, i, n, acc) == IF n = 0 THEN acc ELSE HexNum(b, i + 1, n - 1, IF acc > 1114111 THEN acc ELSE acc * 16 + HexVal(b[i]))
AllHex(b, i, n) == \A k \in 0..(n - 1) : IsHex(At(b, i + k))

SimpleEsc(c) == CASE c = 97 -> 7 [] c = 98 -> 8 [] c = 102 -> 12 [] c = 110 -> 10 [] c = 114 -> 13
                  [] c = 116 -> 9 [] c = 118 -> 11 [] OTHER -> c   \* \\ \? \" \' \` map to themselves

\* Scan the body of a quoted literal.  i: first content byte; q: quote byte; tri: triple quoted;
\* raw: raw literal; uni: \u \U allowed (strings and identifiers).
\* returns [ok, end (index after closing quote / where scanning stopped), val]
RECURSIVE Quoted(_, _, _, _, _, _, _)
Quoted(b, i, q, tri, raw, uni, acc) ==
  LET c == At(b, i) IN
  IF c = -1 THEN [ok |-> FALSE, end |-> i, val |-> acc]
  ELSE IF c = q /\ (~tri \/ (At(b, i + 1) = q /\ At(b, i + 2) = q))
       THEN [ok |-> TRUE, end |-> IF tri THEN i + 3 ELSE i + 1, val |-> acc]
  ELSE IF c = 10 /\ ~tri THEN [ok |-> FALSE, end |-> i, val |-> acc]
  ELSE IF c # 92 THEN Quoted(b, i + 1, q, tri, raw, uni, Append(acc, c))
  ELSE LET d == At(b, i + 1) IN
       IF d = -1 THEN [ok |-> FALSE, end |-> i + 1, val |-> acc]
       ELSE IF raw THEN Quoted(b, i + 2, q, tri, raw, uni, acc \o <<92, d>>)
       ELSE IF d \in {97, 98, 102, 110, 114, 116, 118, 92, 63, 34, 39, 96}
            THEN Quoted(b, i + 2, q, tri, raw, uni, Append(acc, SimpleEsc(d)))
       ELSE IF d \in {120, 88}
            THEN IF AllHex(b, i + 2, 2) THEN Quoted(b, i + 4, q, tri, raw, uni, Append(acc, HexNum(b, i + 2, 2, 0)))
                 ELSE [ok |-> FALSE, end |-> i + 2, val |-> acc]
       ELSE IF d \in {48, 49, 50, 51}
            THEN IF IsOctal(At(b, i + 2)) /\ IsOctal(At(b, i + 3))
                 THEN Quoted(b, i + 4, q, tri, raw, uni, Append(acc, (d - 48) * 64 + (b[i + 2] - 48) * 8 + (b[i + 3] - 48)))
                 ELSE [ok |-> FALSE, end |-> i + 2, val |-> acc]
       ELSE IF d \in {117, 85}
            THEN LET n == IF d = 117 THEN 4 ELSE 8 IN
                 IF ~uni \/ ~AllHex(b, i + 2, n) THEN [ok |-> FALSE, end |-> i + 2, val |-> acc]
                 ELSE LET u == HexNum(b, i + 2, n, 0) IN
                      IF (u >= 55296 /\ u <= 57343) \/ u > 1114111 THEN [ok |-> FALSE, end |-> i + 2, val |-> acc]
                      ELSE Quoted(b, i + 2 + n, q, tri, raw, uni, acc \o Utf8(u))
       ELSE [ok |-> FALSE, end |-> i + 2, val |-> acc]

\* literal prefix at i: returns [n (prefix length), bytes, raw] or n = -1 when not a literal start
Prefix(b, i) ==
  LET c0 == Up(At(b, i)) c1 == Up(At(b, i + 1)) c2 == At(b, i + 2)
      isQ(c) == c = 34 \/ c = 39 IN
  IF isQ(At(b, i)) THEN [n |-> 0, bytes |-> FALSE, raw |-> FALSE]
  ELSE IF c0 = 66 /\ isQ(At(b, i + 1)) THEN [n |-> 1, bytes |-> TRUE, raw |-> FALSE]
  ELSE IF c0 = 82 /\ isQ(At(b, i + 1)) THEN [n |-> 1, bytes |-> FALSE, raw |-> TRUE]
  ELSE IF ((c0 = 66 /\ c1 = 82) \/ (c0 = 82 /\ c1 = 66)) /\ isQ(c2) THEN [n |-> 2, bytes |-> TRUE, raw |-> TRUE]
  ELSE [n |-> -1, bytes |-> FALSE, raw |-> FALSE]

\* multi-character punctuation, longest match:  << <= <> >> >= += -= -> => |> || != @@
Punct2 == {<<60,60>>, <<60,61>>, <<60,62>>, <<62,62>>, <<62,61>>, <<43,61>>, <<45,61>>, <<45,62>>,
           <<61,62>>, <<124,62>>, <<124,124>>, <<33,61>>, <<64,64>>}
Punct1 == {40,41,123,125,59,44,91,93,126,42,47,38,94,37,58,63,92,36,46,60,62,43,45,61,124,33,64}

\* ---- one token -------------------------------------------------------------
\* s: start index (after trivia); dot: dot-identifier mode; prevDot: the previous token kind makes a
\* following "." start dot mode.  returns [kind, end, val, base, dotNext]
Token(b, s, dot, prevDot) ==
  LET c == At(b, s) IN
  IF c = -1 THEN [kind |-> "<eof>", end |-> s, val |-> <<>>, base |-> 0, dotNext |-> FALSE]
  ELSE IF dot /\ IsIdPart(c) THEN
       LET e == ScanWhileIdPart(b, s) IN [kind |-> "<ident>", end |-> e, val |-> SubSeq(b, s, e - 1), base |-> 0, dotNext |-> FALSE]
  ELSE IF c = 46 THEN
       IF ~prevDot /\ IsDigit(At(b, s + 1)) THEN
            LET n == Number(b, s) IN [kind |-> IF n.kind = "err" THEN "<err>" ELSE "<float>", end |-> n.end, val |-> <<>>, base |-> 0, dotNext |-> FALSE]
       ELSE [kind |-> "p1", end |-> s + 1, val |-> <<46>>, base |-> 0, dotNext |-> prevDot]
  ELSE IF c = 64 /\ IsIdStart(At(b, s + 1)) THEN
       LET e == ScanWhileIdPart(b, s + 1) IN [kind |-> "<param>", end |-> e, val |-> SubSeq(b, s + 1, e - 1), base |-> 0, dotNext |-> FALSE]
  ELSE IF <<c, At(b, s + 1)>> \in Punct2 THEN
       [kind |-> "p2", end |-> s + 2, val |-> <<c, b[s + 1]>>, base |-> 0, dotNext |-> FALSE]
  ELSE IF c = 96 THEN
       LET r == Quoted(b, s + 1, 96, FALSE, FALSE, TRUE, <<>>) IN
       [kind |-> IF r.ok /\ r.val # <<>> THEN "<ident>" ELSE "<err>", end |-> r.end, val |-> r.val, base |-> 0, dotNext |-> FALSE]
  ELSE IF IsDigit(c) THEN
       LET n == Number(b, s) IN [kind |-> IF n.kind = "err" THEN "<err>" ELSE IF n.kind = "int" THEN "<int>" ELSE "<float>",
                                 end |-> n.end, val |-> <<>>, base |-> n.base, dotNext |-> FALSE]
  ELSE IF Prefix(b, s).n >= 0 THEN
       LET p == Prefix(b, s) qi == s + p.n q == b[qi]
           tri == At(b, qi + 1) = q /\ At(b, qi + 2) = q
           r == Quoted(b, IF tri THEN qi + 3 ELSE qi + 1, q, tri, p.raw, ~p.bytes, <<>>) IN
       [kind |-> IF ~r.ok THEN "<err>" ELSE IF p.bytes THEN "<bytes>" ELSE "<string>", end |-> r.end, val |-> r.val, base |-> 0, dotNext |-> FALSE]
  ELSE IF IsIdStart(c) THEN
       LET e == ScanWhileIdPart(b, s) raw == SubSeq(b, s, e - 1) up == UpSeq(raw) IN
       IF up \in KwBytes THEN [kind |-> "kw", end |-> e, val |-> up, base |-> 0, dotNext |-> FALSE]   \* reserved word: kind "kw", value = upper-cased spelling
       ELSE [kind |-> "<ident>", end |-> e, val |-> raw, base |-> 0, dotNext |-> FALSE]
  ELSE IF c \in Punct1 THEN [kind |-> "p1", end |-> s + 1, val |-> <<c>>, base |-> 0, dotNext |-> FALSE]
  ELSE [kind |-> "<err>", end |-> s, val |-> <<>>, base |-> 0, dotNext |-> FALSE]

PrevDotKinds == {"<ident>", "<param>"}
MakesDot(t) == t.kind \in PrevDotKinds \/ (t.kind = "p1" /\ t.val \in {<<41>>, <<93>>})

\* Whole-buffer lexing: sequence of [k, p, e, v, bs, nc, cs] (0-based half-open), last is <eof> or <err>
RECURSIVE LexFrom(_, _, _, _)
LexFrom(b, i, dot, prevDot) ==
  LET tr == Trivia(b, i, <<>>) IN
  IF ~tr.ok THEN << [k |-> "<err>", p |-> tr.start - 1, e |-> Len(b), v |-> <<>>, bs |-> 0, nc |-> Len(tr.comments), cs |-> tr.comments] >>
  ELSE LET t == Token(b, tr.start, dot, prevDot)
           r == [k |-> t.kind, p |-> tr.start - 1, e |-> t.end - 1, v |-> t.val, bs |-> t.base, nc |-> Len(tr.comments), cs |-> tr.comments] IN
       IF t.kind \in {"<eof>", "<err>"} THEN <<r>>
       ELSE <<r>> \o LexFrom(b, t.end, t.dotNext, MakesDot(t))
LexAll(b) == LexFrom(b, 1, FALSE, FALSE)

\* Significant tokens only (kind + value), the <eof>/<err> marker dropped.
SigTokens(b) == LET ts == LexAll(b) IN [i \in 1..(Len(ts) - 1) |-> [k |-> ts[i].k, v |-> ts[i].v]]
LexOK(b) == LET ts == LexAll(b) IN ts[Len(ts)].k = "<eof>"

\* ===========================================================================
\* Layer 2: one step over an explicit lexer state.
\*   st = [pos (0-based cursor), dot, prevDot, tok]     tok = last token record
\* Panic mode: the result is a token, or "<err>" (the Go code panics with *Error
\* and NextToken turns it into a returned error).
\* No-panic mode (recovery): identical on lexically clean text; at a malformed
\* point it yields a "<bad>" token whose extent is deliberately under-specified:
\* BadExtentOK says what every reading must satisfy.
\* ===========================================================================
Slice(b, p, e) == SubSeq(b, p + 1, e)
NoTok == [k |-> "", p |-> 0, e |-> 0, v |-> <<>>, bs |-> 0, nc |-> 0, cs |-> <<>>]
InitState == [pos |-> 0, dot |-> FALSE, prevDot |-> FALSE, tok |-> NoTok]

StepTok(b, st) ==   \* the token the panic-mode lexer produces next (k = "<err>" for a lexical error)
  LexFrom(b, st.pos + 1, st.dot, st.prevDot)[1]

StepState(b, st) == \* successor state after a successful panic-mode step
  LET tr == Trivia(b, st.pos + 1, <<>>)
      t  == Token(b, tr.start, st.dot, st.prevDot)
      r  == StepTok(b, st) IN
  [pos |-> r.e, dot |-> t.dotNext, prevDot |-> MakesDot(t), tok |-> r]

\* token and successor state in one evaluation (used by ParserTrace on every Tok event)
StepFull(b, st) ==
  LET tr == Trivia(b, st.pos + 1, <<>>) IN
  IF ~tr.ok THEN [tok |-> [k |-> "<err>", p |-> tr.start - 1, e |-> Len(b), v |-> <<>>, bs |-> 0, nc |-> Len(tr.comments), cs |-> tr.comments],
                  dot |-> FALSE]
  ELSE LET t == Token(b, tr.start, st.dot, st.prevDot) IN
       [tok |-> [k |-> t.kind, p |-> tr.start - 1, e |-> t.end - 1, v |-> t.val, bs |-> t.base, nc |-> Len(tr.comments), cs |-> tr.comments],
        dot |-> t.dotNext]

\* What any <bad> token returned by the recovery-mode step at state st must satisfy.
BadExtentOK(b, st, p, e) ==
  /\ st.pos <= p /\ p <= e /\ e <= Len(b)
  /\ (e > st.pos \/ st.pos = Len(b))           \* progress unless at end of input
=============================================================================
