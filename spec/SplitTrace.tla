----------------------------- MODULE SplitTrace -----------------------------
(* C12: SplitRawStatements partitions the input at top-level semicolons and nothing else.
   One record per call of the real function: [buf, err, pan, etype, pieces: Seq([p, e, s])].
   SplitOK is the relational contract over the REFERENCE lexer's tokens and comments:
   error iff lexical error; pieces are slices of the input, in order, disjoint; no piece
   contains a ';' token; each gap holds exactly one ';' plus white space; every other token and
   every comment lies in exactly one piece; an input without tokens and comments yields [""]. *)
EXTENDS LexerCore, Json, CSV
CONSTANTS TraceFile, RejectFile
VARIABLES l
Trace == ndJsonDeserialize(TraceFile)

\* items of the input: non-eof tokens and all comments, as [p, e, semi]
RECURSIVE Items(_, _)
Items(sp, i) ==
  IF i > Len(sp) THEN <<>>
  ELSE LET t == sp[i]
           cms == [j \in 1..Len(t.cs) |-> [p |-> t.cs[j].p, e |-> t.cs[j].e, semi |-> FALSE]]
           self == IF t.k = "<eof>" THEN <<>> ELSE <<[p |-> t.p, e |-> t.e, semi |-> (t.k = "p1" /\ t.v = <<59>>)]>>
       IN cms \o self \o Items(sp, i + 1)

SplitOK(rec) ==
  LET sp == LexAll(rec.buf)
      n == Len(rec.buf) IN
  IF rec.pan THEN FALSE
  ELSE IF sp[Len(sp)].k = "<err>" THEN rec.err /\ rec.etype = "*memefish.Error"
  ELSE /\ ~rec.err
       /\ LET its == Items(sp, 1)
              semis == SelectSeq(its, LAMBDA x : x.semi)
              m == Len(semis)
              segStart(k) == IF k = 0 THEN 0 ELSE semis[k].e          \* segments 0..m
              segEnd(k) == IF k = m THEN n ELSE semis[k + 1].p
              inSeg(k) == SelectSeq(its, LAMBDA x : ~x.semi /\ x.p >= segStart(k) /\ x.e <= segEnd(k))
              lastHas == inSeg(m) # <<>>
              np == IF m = 0 \/ lastHas THEN m + 1 ELSE m
          IN /\ Len(rec.pieces) = np
             /\ \A k \in 0..(np - 1) :
                  LET pc == rec.pieces[k + 1]  xs == inSeg(k) IN
                  /\ segStart(k) <= pc.p /\ pc.p <= pc.e /\ pc.e <= segEnd(k)
                  /\ pc.s = SubSeq(rec.buf, pc.p + 1, pc.e)
                  /\ xs # <<>> => (pc.p <= xs[1].p /\ xs[Len(xs)].e <= pc.e)
Report(i) == CSVWrite("%1$s,%2$s", <<i, "C12">>, RejectFile)
Init == l = 1
Next == l <= Len(Trace) /\ (IF SplitOK(Trace[l]) THEN TRUE ELSE Report(l)) /\ l' = l + 1
Spec == Init /\ [][Next]_l
Accepted == TLCGet("stats").diameter - 1 = Len(Trace)
==============================================================================
