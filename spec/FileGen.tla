------------------------------- MODULE FileGen -------------------------------
(* C20, spec -> code: every buffer up to MaxLen over Alphabet with every 0 <= pos <= end <= len is an
   initial state; the expected line, column, end line/column, excerpt and message prefix are computed
   by File.tla and written out; the harness replays each case into the real token.File. *)
EXTENDS File, FiniteSets, TLC, Json, CSV
CONSTANTS Alphabet, MaxLen, OutFile
VARIABLES buf, pos, end
Strings == UNION {[1..n -> Alphabet] : n \in 0..MaxLen}
Init == \E b \in Strings : \E p \in 0..Len(b) : \E e \in p..Len(b) : buf = b /\ pos = p /\ end = e
Next == UNCHANGED <<buf, pos, end>>
Spec == Init /\ [][Next]_<<buf, pos, end>>
\* design-level sanity of the reference itself
LineColRoundTrip == LineStartOf(buf, pos) + Col(buf, pos) = pos /\ Line(buf, pos) <= Line(buf, end)
ExcerptHasLine == LET x == Excerpt(buf, pos, end) IN Len(x) >= Len(LineText(buf, Line(buf, pos)))
Emit == OutFile # "" => CSVWrite("%1$s", <<ToJson([buf |-> buf, pos |-> pos, end |-> end, line |-> Line(buf, pos), col |-> Col(buf, pos),
                                                   eline |-> Line(buf, end), ecol |-> Col(buf, end), src |-> Excerpt(buf, pos, end),
                                                   prefix |-> Prefix(<<102>>, buf, pos)])>>, OutFile)
==============================================================================
