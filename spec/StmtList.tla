------------------------------- MODULE StmtList -------------------------------
(***************************************************************************)
(* C11: statement lists compose.  Generator of ';'-joined lists over a     *)
(* pool of statements (queries, DML, DDL, statements that are only valid   *)
(* because of end-of-input-sensitive rules, broken statements, empty and   *)
(* comment-only statements) with trivia variants around the separators,    *)
(* leading and trailing semicolons.  Every list up to MaxLen items is a    *)
(* behaviour; the text is assembled by the specification.                  *)
(***************************************************************************)
EXTENDS Integers, Sequences, TLC, Json, CSV
CONSTANTS MaxLen, OutFile, Entry      \* Entry: "ParseStatements" | "ParseDDLs" | "ParseDMLs"
VARIABLES items, seps, lead, tail
vars == <<items, seps, lead, tail>>

S(k, s) == [k |-> k, s |-> s]
Pool == <<
  S("q", "SELECT 1"), S("q", "SELECT 1,"), S("q", "SELECT a, FROM t"), S("q", "(SELECT 1) UNION ALL (SELECT 2)"), S("q", "SELECT ';' AS `a;b` -- ;"),
  S("q", "WITH x AS (SELECT 1) SELECT * FROM x ORDER BY 1 LIMIT 2"), S("q", "@{h=1} SELECT a FROM t WHERE a IN (1, 2)"), S("q", "FROM t |> WHERE a"),
  S("q", "SELECT CASE WHEN a THEN 1 ELSE 2 END, [1, 2][OFFSET(0)]"), S("q", "SELECT * FROM a JOIN b ON TRUE, UNNEST([1]) WITH OFFSET"),
  S("m", "INSERT INTO t (a) VALUES (1)"), S("m", "INSERT t (a) SELECT 1"), S("m", "UPDATE t SET a = 1 WHERE TRUE"), S("m", "DELETE FROM t WHERE a = ';'"),
  S("m", "@{h=1} DELETE t WHERE TRUE THEN RETURN *"),
  S("d", "CREATE TABLE t (a INT64) PRIMARY KEY (a)"), S("d", "CREATE TABLE t (a INT64, b STRING(MAX),) PRIMARY KEY (a, b), INTERLEAVE IN PARENT p"),
  S("d", "ALTER TABLE t ADD COLUMN c BOOL"), S("d", "DROP TABLE t"), S("d", "CREATE INDEX i ON t (a DESC)"), S("d", "CREATE VIEW v SQL SECURITY INVOKER AS SELECT 1"),
  S("d", "GRANT SELECT ON TABLE t TO ROLE r"), S("d", "ANALYZE"), S("d", "CREATE CHANGE STREAM s FOR t(a, b)"), S("d", "ALTER DATABASE d SET OPTIONS (k = 1)"),
  S("c", "CALL p(1)"),
  S("x", "SELECT"), S("x", "SELECT 1 +"), S("x", "CREATE TABLE"), S("x", "INSERT INTO t"), S("x", "1"), S("x", "SELECT (1"),
  S("e", ""), S("e", " "), S("e", "/* only a comment */"), S("e", "-- c\n") >>
Seps == << ";", " ; ", ";\n", "; -- c\n", ";/*c*/", ";;", "; ;", "\n;\t" >>
Leads == << "", ";", " ; " >>
Tails == << "", ";", " ;; ", " " >>

Allowed(k) == CASE Entry = "ParseStatements" -> TRUE
                [] Entry = "ParseDDLs" -> k \in {"d", "x", "e"}
                [] Entry = "ParseDMLs" -> k \in {"m", "x", "e"}

Init == items = <<>> /\ seps = <<>> /\ lead = 1 /\ tail = 1
Add  == /\ Len(items) < MaxLen
        /\ \E i \in 1..Len(Pool) : Allowed(Pool[i].k) /\ items' = Append(items, i)
        \* every separator variant in the first gap, three of them in later gaps (keeps triples tractable)
        /\ (IF items = <<>> THEN seps' = seps ELSE \E j \in 1..(IF Len(items) = 1 THEN Len(Seps) ELSE 3) : seps' = Append(seps, j))
        /\ UNCHANGED <<lead, tail>>
Decor == /\ items # <<>> /\ Len(items) <= 2 /\ lead = 1 /\ tail = 1
         /\ \E a \in 1..Len(Leads), b \in 1..Len(Tails) : (a # 1 \/ b # 1) /\ lead' = a /\ tail' = b
         /\ UNCHANGED <<items, seps>>
Next == Add \/ Decor
Spec == Init /\ [][Next]_vars

RECURSIVE Join(_)
Join(k) == IF k > Len(items) THEN "" ELSE (IF k > 1 THEN Seps[seps[k - 1]] ELSE "") \o Pool[items[k]].s \o Join(k + 1)
Text == Leads[lead] \o Join(1) \o Tails[tail]
Emit == (items # <<>> /\ OutFile # "") => CSVWrite("%1$s", <<ToJson([entry |-> Entry, text |-> Text, kinds |-> [k \in 1..Len(items) |-> Pool[items[k]].k]])>>, OutFile)
==============================================================================
