----------------------------- MODULE ParserTrace -----------------------------
(***************************************************************************)
(* Trace validation of Parse* calls of the real parser (code -> spec).     *)
(*                                                                         *)
(* One record per call: the hook events (Snapshot S, TokBegin B, Tok T,    *)
(* Recover R, Bad D) in program order, the returned value projected by     *)
(* reflection, and the C04 exercise results.  The record is folded over    *)
(* the run-time discipline of ParserRuntime.tla, written here over the     *)
(* logged lexer states instead of abstract token indices:                  *)
(*                                                                         *)
(*   - the state at every event is the state after the previous event, or  *)
(*     a LIVE SNAPSHOT that lies behind it (an un-hooked look-ahead        *)
(*     restore: error count untouched), or the in-place split of '>>';     *)
(*   - every token fetch produces exactly the token the REFERENCE LEXER    *)
(*     produces from that state (in context: dot mode, recovery mode);     *)
(*     in recovery mode a lexical error becomes a <bad> token with         *)
(*     progress; in panic mode it is followed by a Recover;                *)
(*   - every Recover rewinds to a live snapshot behind the cursor, records *)
(*     at least one error with a position inside the buffer, and is        *)
(*     followed by recovery-mode fetches only, closed by a Bad event whose *)
(*     tokens are exactly the tokens skipped from the rewind point (or by  *)
(*     the top-level refetch of exactly one <bad> token);                  *)
(*   - the returned value obeys the error contract (C09), its Bad nodes    *)
(*     are Bad events of the trace with the same tokens (C10), nothing     *)
(*     escaped (C03) and SQL/Pos/End/Walk ran on every node (C04).         *)
(* A failing record is reported as "<line>,<tag>" with tag one of          *)
(* C03 C04 C09 C10 LEX; all records are consumed (collect-all).            *)
(***************************************************************************)
EXTENDS LexerCore, Json, CSV
CONSTANTS TraceFile, RejectFile
VARIABLE l
Trace == ndJsonDeserialize(TraceFile)

\* an event is the tuple <<ev, np, c, d, k, kv, tp, te, nc, a, b, n>>
Ev(x) == [ev |-> x[1], np |-> x[2], c |-> x[3], d |-> x[4], k |-> x[5], kv |-> x[6], tp |-> x[7], te |-> x[8], nc |-> x[9], a |-> x[10], b |-> x[11], n |-> x[12]]
St(e) == [c |-> e.c, tp |-> e.tp, te |-> e.te, k |-> e.k, kv |-> e.kv, d |-> e.d]
Zero  == [c |-> 0, tp |-> 0, te |-> 0, k |-> "", kv |-> <<>>, d |-> FALSE]
IsPunct(s, b) == s.k = "punct" /\ s.kv = b
\* '>>' rewritten in place to '>' at pos+1 (type brackets)
SplitAngle(a, b) == /\ IsPunct(a, <<62, 62>>) /\ IsPunct(b, <<62>>)
                    /\ b.tp = a.tp + 1 /\ b.te = a.te /\ b.c = a.c /\ b.d = a.d
Reach(s, S) == \/ S = s.cur
               \/ (S \in s.snaps /\ S.c <= s.cur.c)
               \/ SplitAngle(s.cur, S)
MakesDotK(S) == S.k \in {"<ident>", "<param>"} \/ IsPunct(S, <<41>>) \/ IsPunct(S, <<93>>)
LexSt(S) == [pos |-> S.c, dot |-> S.d, prevDot |-> MakesDotK(S)]

\* does the observed token (event e) equal the reference token r ?
TokMatches(r, e) ==
  /\ \/ r.k = e.k /\ r.k # "kw"
     \/ r.k = "kw" /\ e.k = "kw" /\ e.kv = r.v
     \/ r.k \in {"p1", "p2"} /\ e.k = "punct" /\ e.kv = r.v
  /\ r.p = e.tp /\ r.e = e.te /\ r.e = e.c /\ r.nc = e.nc

Fail(s, tag, i) == [s EXCEPT !.ok = FALSE, !.tag = tag, !.at = i]

\* one event
Apply(b, s, e, i) ==
  LET S == St(e) IN
  CASE e.ev = "S" ->
         IF ~Reach(s, S) THEN Fail(s, "C09", i)                  \* state from nowhere
         ELSE IF s.pend THEN Fail(s, "C09", i)
         ELSE LET s1 == IF s.mode = "skip" THEN (IF Len(s.skipped) = 1 /\ s.cur.k \in {"<bad>", "<eof>"} THEN [s EXCEPT !.mode = "parse"] ELSE Fail(s, "C10", i)) ELSE s
              IN IF ~s1.ok THEN s1 ELSE [s1 EXCEPT !.cur = S, !.snaps = @ \cup {S}]
    [] e.ev = "B" ->
         IF ~Reach(s, S) \/ s.pend THEN Fail(s, "C09", i)
         ELSE IF s.mode = "skip" /\ ~e.np
              THEN (IF Len(s.skipped) = 1 /\ s.cur.k \in {"<bad>", "<eof>"} THEN [s EXCEPT !.mode = "parse", !.cur = S, !.pend = TRUE, !.np = FALSE] ELSE Fail(s, "C10", i))
         ELSE IF s.mode = "parse" /\ e.np THEN Fail(s, "C10", i)    \* recovery-mode fetch outside a recovery
         ELSE [s EXCEPT !.cur = S, !.pend = TRUE, !.np = e.np]
    [] e.ev = "T" ->
         IF ~s.pend \/ e.np # s.np THEN Fail(s, "C09", i)
         ELSE LET f == StepFull(b, LexSt(s.cur)) r == f.tok IN
              IF r.k # "<err>"
              THEN (IF TokMatches(r, e) /\ e.d = f.dot
                    THEN [s EXCEPT !.cur = S, !.pend = FALSE, !.skipped = IF s.mode = "skip" THEN Append(@, S) ELSE @, !.ntok = @ + 1]
                    ELSE Fail(s, "LEX", i))
              ELSE (IF e.np /\ e.k = "<bad>" /\ BadExtentOK(b, LexSt(s.cur), e.tp, e.te) /\ e.c >= e.te /\ e.c <= Len(b)
                       /\ (e.c > s.cur.c \/ s.cur.c = Len(b))
                    THEN [s EXCEPT !.cur = S, !.pend = FALSE, !.skipped = IF s.mode = "skip" THEN Append(@, S) ELSE @, !.ntok = @ + 1]
                    ELSE Fail(s, IF e.np THEN "C10" ELSE "LEX", i))     \* panic mode returned a token where the reference rejects
    [] e.ev = "R" ->
         IF s.pend /\ StepFull(b, LexSt(s.cur)).tok.k # "<err>" THEN Fail(s, "LEX", i)   \* lexer panicked on clean text
         ELSE IF ~(S \in s.snaps /\ S.c <= s.cur.c) THEN Fail(s, "C10", i)              \* rewind to something that is not a live snapshot
         ELSE IF ~(e.n >= s.nerr + 1) THEN Fail(s, "C09", i)                            \* recovery without recording an error
         ELSE IF ~(0 <= e.a /\ e.a <= e.b /\ e.b <= Len(b)) THEN Fail(s, "C09", i)       \* error position outside the buffer
         ELSE IF s.mode = "skip" /\ ~(Len(s.skipped) = 1 /\ s.cur.k \in {"<bad>", "<eof>"}) THEN Fail(s, "C10", i)
         ELSE [s EXCEPT !.cur = S, !.pend = FALSE, !.nerr = e.n, !.mode = "skip", !.rew = S, !.skipped = <<>>,
                        !.snaps = {x \in @ : x.c <= S.c}, !.nrec = @ + 1]
    [] e.ev = "D" ->
         IF s.mode # "skip" \/ s.pend THEN Fail(s, "C10", i)
         ELSE IF ~(S = s.cur \/ SplitAngle(s.cur, S)) THEN Fail(s, "C10", i)
         ELSE LET all == <<s.rew>> \o s.skipped        \* rewound-to token, then every recovery-mode token; the last one is the stop token
                  n == e.n
              IN IF ~(n = Len(s.skipped) /\ e.a = s.rew.tp /\ e.b = (IF n = 0 THEN s.rew.tp ELSE all[n].te))
                 THEN Fail(s, "C10", i)
                 ELSE [s EXCEPT !.mode = "parse", !.cur = S,
                                !.bads = Append(@, [p |-> e.a, e |-> e.b, toks |-> SubSeq(all, 1, n)])]
    [] OTHER -> Fail(s, "C09", i)

RECURSIVE Run(_, _, _, _)
Run(b, evs, i, s) == IF i > Len(evs) \/ ~s.ok THEN s ELSE Run(b, evs, i + 1, Apply(b, s, Ev(evs[i]), i))

Start == [cur |-> Zero, snaps |-> {}, nerr |-> 0, mode |-> "parse", pend |-> FALSE, np |-> FALSE, rew |-> Zero,
          skipped |-> <<>>, bads |-> <<>>, ok |-> TRUE, tag |-> "", at |-> 0, ntok |-> 0, nrec |-> 0]

\* ---- the returned value -----------------------------------------------------
Single(entry) == entry \in {"ParseStatement", "ParseQuery", "ParseExpr", "ParseType", "ParseDDL", "ParseDML"}
FinalSt(ret) == [c |-> ret.fc, tp |-> ret.ftp, te |-> ret.fte, k |-> ret.fk, kv |-> ret.fkv, d |-> FALSE]
SameTok(a, t) == a.k = t.k /\ a.kv = t.kv /\ a.tp = t.p /\ a.te = t.e     \* trace token vs tree token

\* C03: nothing escaped, typed error, non-nil node
C03OK(rec, s) ==
  /\ ~rec.pan
  /\ ~s.pend                                             \* a fetch that never completed and was never recovered
  /\ (~rec.ret.nilerr => rec.ret.etype = "memefish.MultiError" /\ rec.ret.nerrs >= 1)
  /\ (Single(rec.entry) => ~rec.ret.nilnode)
  /\ ~rec.ret.nilnode

\* C09: nil error iff clean, fully consumed parse; one error per Bad node; positions in range.
\* C09Ret looks at the returned value only (evaluated even when the trace was rejected),
\* C09Trace relates it to the trace.
C09Ret(rec) ==
  LET ret == rec.ret IN
  rec.pan \/
  /\ ret.nilerr <=> (ret.nerrs = 0)
  /\ ret.nilerr => (ret.fk = "<eof>" /\ ret.bads = <<>>)
  /\ ret.nilerr => (ret.ftp = Len(rec.buf) /\ ret.fte = Len(rec.buf) /\ ret.fc = Len(rec.buf))   \* the whole input was consumed
  /\ ret.nerrs >= Len(ret.bads)
  /\ Len(ret.errs) = ret.nerrs
  /\ \A j \in 1..Len(ret.errs) : ret.errs[j].msg /\ 0 <= ret.errs[j].p /\ ret.errs[j].p <= ret.errs[j].e /\ ret.errs[j].e <= Len(rec.buf)
C09Trace(rec, s) ==
  LET ret == rec.ret
      left == IF ret.fk = "<eof>" THEN 0 ELSE 1 IN
  rec.pan \/
  /\ s.mode = "parse" \/ (Len(s.skipped) = 1 /\ s.cur.k \in {"<bad>", "<eof>"})
  /\ LET f == FinalSt(ret) c == [s.cur EXCEPT !.d = FALSE] IN            \* the call ended where the trace ended,
       \/ f = c \/ SplitAngle(c, f)
       \/ \E S \in s.snaps : S.c <= s.cur.c /\ [S EXCEPT !.d = FALSE] = f    \* or right after a (silent) look-ahead restore
  /\ ret.verr = ret.nerrs /\ ret.nerrs = s.nerr + left                 \* errors = recoveries' errors + trailing-token error
  /\ ret.nilerr => s.nrec = 0
C09OK(rec, s) == C09Ret(rec) /\ C09Trace(rec, s)

\* C10: Bad nodes of the tree are Bad events of the trace with exactly the skipped tokens
RECURSIVE SigOf(_, _)
\* significant tokens (kind, value-ish spelling by position) of a token list of the tree
SigOf(ts, i) == IF i > Len(ts) THEN <<>> ELSE <<[k |-> ts[i].k, kv |-> ts[i].kv]>> \o SigOf(ts, i + 1)
BadNodeRet(rec, bn) ==
  /\ \A t \in 1..Len(bn.toks) : bn.toks[t].raw = Slice(rec.buf, bn.toks[t].p, bn.toks[t].e)
  /\ (bn.toks = <<>> => bn.p = bn.e)
  /\ (bn.toks # <<>> => bn.p = bn.toks[1].p /\ bn.e = bn.toks[Len(bn.toks)].e)
  /\ \A t \in 1..(Len(bn.toks) - 1) : bn.toks[t].e <= bn.toks[t + 1].p
  \* SQL() re-lexes to the same token sequence (when no token is lexically bad)
  /\ ((\A t \in 1..Len(bn.toks) : bn.toks[t].k # "<bad>") =>
        LET ts == LexAll(bn.sql) IN
        /\ ts[Len(ts)].k = "<eof>"
        /\ Len(ts) - 1 = Len(bn.toks)
        /\ \A t \in 1..Len(bn.toks) :
             /\ \/ ts[t].k = bn.toks[t].k /\ ts[t].k # "kw"
                \/ ts[t].k = "kw" /\ bn.toks[t].k = "kw" /\ bn.toks[t].kv = ts[t].v
                \/ ts[t].k \in {"p1", "p2"} /\ bn.toks[t].k = "punct" /\ bn.toks[t].kv = ts[t].v
                \/ bn.toks[t].k = "<ident>" /\ ts[t].k \in {"kw", "<int>", "<float>"}   \* dot-mode identifier spelled like a keyword or digits
             /\ Slice(bn.sql, ts[t].p, ts[t].e) = bn.toks[t].raw)
BadNodeTrace(rec, s, bn) ==
  \E j \in 1..Len(s.bads) :
        LET tb == s.bads[j] IN
        /\ tb.p = bn.p /\ tb.e = bn.e /\ Len(tb.toks) = Len(bn.toks)
        /\ \A t \in 1..Len(bn.toks) : SameTok(tb.toks[t], bn.toks[t])
BadsDisjoint(rec) ==
  \A i, j \in 1..Len(rec.ret.bads) : i < j =>       \* reachable Bad nodes do not share input
        (rec.ret.bads[i].e <= rec.ret.bads[j].p \/ rec.ret.bads[j].e <= rec.ret.bads[i].p
         \/ rec.ret.bads[i].p = rec.ret.bads[i].e \/ rec.ret.bads[j].p = rec.ret.bads[j].e)
C10Ret(rec) == rec.pan \/ (BadsDisjoint(rec) /\ \A j \in 1..Len(rec.ret.bads) : BadNodeRet(rec, rec.ret.bads[j]))
C10Trace(rec, s) == rec.pan \/ \A j \in 1..Len(rec.ret.bads) : BadNodeTrace(rec, s, rec.ret.bads[j])
C10OK(rec, s) == C10Ret(rec) /\ C10Trace(rec, s)

C04OK(rec) == rec.pan \/ rec.ret.fails = <<>>

\* C05, error clause: on a tree returned WITH errors every node still has 0 <= Pos <= End <= len, children lie
\* inside their parent and the children of a node are in source order without overlap (CreateTable exempt).
\* nodes: Seq(<<pos, end, parent, exempt>>) in reflective pre-order; a node whose Pos()/End() panicked is C04's business.
C05ErrOK(rec) ==
  rec.pan \/
  LET N == rec.ret.nodes n == Len(rec.buf) IN
  /\ \A i \in 1..Len(N) : N[i][1] = -7 \/ (0 <= N[i][1] /\ N[i][1] <= N[i][2] /\ N[i][2] <= n
                                            /\ (N[i][3] > 0 /\ N[N[i][3]][1] # -7 => (N[N[i][3]][1] <= N[i][1] /\ N[i][2] <= N[N[i][3]][2])))
  /\ \A i, j \in 1..Len(N) :
       (i < j /\ N[i][3] = N[j][3] /\ N[i][3] > 0 /\ N[i][4] = 0 /\ N[i][1] # -7 /\ N[j][1] # -7
        /\ ~\E m \in (i+1)..(j-1) : N[m][3] = N[i][3]) => N[i][2] <= N[j][1]

Report(i, tag) == CSVWrite("%1$s,%2$s", <<i, tag>>, RejectFile)
Finish(i, s) ==
  LET rec == Trace[i] IN
  /\ (IF s.ok THEN TRUE ELSE Report(i, s.tag))
  /\ (IF C03OK(rec, s) THEN TRUE ELSE Report(i, "C03"))
  /\ (IF C09Ret(rec) /\ (~s.ok \/ C09Trace(rec, s)) THEN TRUE ELSE Report(i, "C09"))
  /\ (IF C10Ret(rec) /\ (~s.ok \/ C10Trace(rec, s)) THEN TRUE ELSE Report(i, "C10"))
  /\ (IF C04OK(rec) THEN TRUE ELSE Report(i, "C04"))
  /\ (IF C05ErrOK(rec) THEN TRUE ELSE Report(i, "C05"))

\* Step mode: one TLC state per hook event (the fold Run is kept for documentation and small
\* experiments; TLC evaluates it two orders of magnitude slower than stepping).
VARIABLES j, st
vars == <<l, j, st>>
Init == l = 1 /\ j = 1 /\ st = Start
Step == /\ l <= Len(Trace)
        /\ LET rec == Trace[l] IN
           IF j <= Len(rec.evs) /\ st.ok
           THEN /\ st' = Apply(rec.buf, st, Ev(rec.evs[j]), j) /\ j' = j + 1 /\ l' = l
           ELSE /\ Finish(l, st) /\ l' = l + 1 /\ j' = 1 /\ st' = Start
Next == Step
Spec == Init /\ [][Next]_vars
\* every record was consumed: the last state has l = Len(Trace) + 1
RECURSIVE Steps(_)
Steps(i) == IF i = 0 THEN 0 ELSE Steps(i - 1) + Len(Trace[i].evs) + 1
Accepted == TLCGet("stats").diameter - 1 <= Steps(Len(Trace)) /\ TLCGet("stats").diameter - 1 >= Len(Trace)
\* written exactly once, by the state that has consumed the whole chunk (the driver requires it)
DoneMark == (l = Len(Trace) + 1) => Report(0, "DONE")
==============================================================================
