-------------------------------- MODULE File --------------------------------
(* C20: line / column / excerpt of a position in a source text.  Pure operators over byte
   sequences; lines are separated by the newline byte only (CR is an ordinary byte), columns are
   byte distances, line and column are 0-based (the message prefix shows them 1-based). *)
EXTENDS Integers, Sequences

NL == 10
\* number of newline bytes in b[1..p]  (p = 0-based position = number of bytes before it)
RECURSIVE NlBefore(_, _)
NlBefore(b, p) == IF p = 0 THEN 0 ELSE NlBefore(b, p - 1) + (IF b[p] = NL THEN 1 ELSE 0)
Line(b, p) == NlBefore(b, p)
\* 0-based offset of the first byte of the line containing position p
RECURSIVE LineStartOf(_, _)
LineStartOf(b, p) == IF p = 0 THEN 0 ELSE IF b[p] = NL THEN p ELSE LineStartOf(b, p - 1)
Col(b, p) == p - LineStartOf(b, p)
\* 0-based offset of the start of line number L (L = 0, 1, ...)
RECURSIVE StartOfLine(_, _, _)
StartOfLine(b, L, from) == IF L = 0 THEN from
                           ELSE IF from >= Len(b) THEN Len(b) + 1   \* no such line
                           ELSE StartOfLine(b, IF b[from + 1] = NL THEN L - 1 ELSE L, from + 1)
RECURSIVE LineEndFrom(_, _)
LineEndFrom(b, i) == IF i >= Len(b) THEN Len(b) ELSE IF b[i + 1] = NL THEN i ELSE LineEndFrom(b, i + 1)
LineText(b, L) == LET s == StartOfLine(b, L, 0) IN SubSeq(b, s + 1, LineEndFrom(b, s))

RECURSIVE Digits(_)
Digits(n) == IF n < 10 THEN <<48 + n>> ELSE Digits(n \div 10) \o <<48 + (n % 10)>>
Rep(c, n) == [i \in 1..n |-> c]
Pad3(d) == Rep(32, IF Len(d) >= 3 THEN 0 ELSE 3 - Len(d)) \o d
Gutter(n) == Pad3(Digits(n)) \o <<124, 32, 32>>            \* "%3d|  "
Max0(x) == IF x < 0 THEN 0 ELSE x

\* expected excerpt (the rows quoted for [pos, end)), rows joined by newline
RECURSIVE Rows(_, _, _)
Rows(b, L, last) == Gutter(L + 1) \o LineText(b, L) \o (IF L = last THEN <<>> ELSE <<NL>> \o Rows(b, L + 1, last))
Excerpt(b, pos, end) ==
  LET l1 == Line(b, pos) l2 == Line(b, end) IN
  IF l1 = l2 THEN Gutter(l1 + 1) \o LineText(b, l1) \o <<NL>> \o <<32, 32, 32, 124, 32, 32>> \o Rep(32, Col(b, pos))
                  \o <<94>> \o Rep(126, Max0(Col(b, end) - Col(b, pos) - 1))
  ELSE Rows(b, l1, l2)
\* "path:line:col", 1-based
Prefix(path, b, pos) == path \o <<58>> \o Digits(Line(b, pos) + 1) \o <<58>> \o Digits(Col(b, pos) + 1)
==============================================================================
