------------------------------ MODULE TreeFaults ------------------------------
(***************************************************************************)
(* Structural fault model over derivations of the reference grammar G.     *)
(* A seed is a sentence with its node structure: the token list and, per   *)
(* node, the token range it spans and its parent (taken from the tape).    *)
(* Actions: swap two adjacent sibling subtrees (clause reordering),        *)
(* delete a subtree, duplicate a subtree, hoist a subtree in place of its  *)
(* parent.  Every mutant is written out once.  Most are no sentences       *)
(* (they feed the error-recovery checks C03 C04 C09 C10); the ones the     *)
(* parser accepts are inputs OUTSIDE G for the properties that quantify    *)
(* over every accepted input (C01 C04 C05 C06 C17 C19).                    *)
(***************************************************************************)
EXTENDS Integers, Sequences, TLC, Json, CSV
CONSTANTS SeedFile, OutFile, Sel
VARIABLES idx, mut
vars == <<idx, mut>>
Seeds == ndJsonDeserialize(SeedFile)
Chosen == {i \in 1..Len(Seeds) : Sel = {} \/ i \in Sel}

\* node = <<first, last, parent>> (token indices 1-based, parent = node index or 0)
Nodes(i) == Seeds[i].nodes
Sib(i, a, b) == a # b /\ Nodes(i)[a][3] = Nodes(i)[b][3] /\ Nodes(i)[a][3] > 0 /\ Nodes(i)[a][2] < Nodes(i)[b][1]
                /\ ~\E c \in 1..Len(Nodes(i)) : c # a /\ c # b /\ Nodes(i)[c][3] = Nodes(i)[a][3]
                                               /\ Nodes(i)[a][2] < Nodes(i)[c][1] /\ Nodes(i)[c][2] < Nodes(i)[b][1]
Seg(t, f, l) == SubSeq(t, f, l)
Swap(i, a, b) == LET t == Seeds[i].toks A == Nodes(i)[a] B == Nodes(i)[b] IN
  Seg(t, 1, A[1] - 1) \o Seg(t, B[1], B[2]) \o Seg(t, A[2] + 1, B[1] - 1) \o Seg(t, A[1], A[2]) \o Seg(t, B[2] + 1, Len(t))
Delete(i, a) == LET t == Seeds[i].toks A == Nodes(i)[a] IN Seg(t, 1, A[1] - 1) \o Seg(t, A[2] + 1, Len(t))
Dup(i, a) == LET t == Seeds[i].toks A == Nodes(i)[a] IN Seg(t, 1, A[2]) \o Seg(t, A[1], A[2]) \o Seg(t, A[2] + 1, Len(t))
Hoist(i, a) == LET t == Seeds[i].toks A == Nodes(i)[a] P == Nodes(i)[A[3]] IN Seg(t, 1, P[1] - 1) \o Seg(t, A[1], A[2]) \o Seg(t, P[2] + 1, Len(t))

Init == idx \in Chosen /\ mut = <<>>
Next == /\ mut = <<>>
        /\ UNCHANGED idx
        /\ \/ \E a, b \in 1..Len(Nodes(idx)) : Sib(idx, a, b) /\ mut' = <<"swap", Swap(idx, a, b)>>
           \/ \E a \in 2..Len(Nodes(idx)) : Nodes(idx)[a][1] <= Nodes(idx)[a][2] /\ mut' = <<"delete", Delete(idx, a)>>
           \/ \E a \in 2..Len(Nodes(idx)) : Nodes(idx)[a][1] <= Nodes(idx)[a][2] /\ mut' = <<"dup", Dup(idx, a)>>
           \/ \E a \in 2..Len(Nodes(idx)) : Nodes(idx)[a][3] > 1 /\ Nodes(idx)[a][1] <= Nodes(idx)[a][2] /\ mut' = <<"hoist", Hoist(idx, a)>>
Spec == Init /\ [][Next]_vars

RECURSIVE Join(_, _)
Join(ts, i) == IF i > Len(ts) THEN <<>> ELSE (IF i > 1 THEN <<32>> ELSE <<>>) \o ts[i] \o Join(ts, i + 1)
Emit == mut # <<>> => CSVWrite("%1$s", <<ToJson([dir |-> Seeds[idx].dir, buf |-> Join(mut[2], 1), op |-> mut[1]])>>, OutFile)
==============================================================================
