------------------------------- MODULE Faults -------------------------------
(***************************************************************************)
(* Fault model over token lists (C03, C04, C09, C10).                      *)
(* A seed is the token list (spellings as byte sequences) of a sentence;   *)
(* the actions delete, duplicate, swap, replace, truncate, insert a        *)
(* lexically malformed lexeme at every position including 0 and directly   *)
(* after a ';', and unbalance brackets.  Every state reached by at least   *)
(* one fault is written out once (NDJSON: dir + the byte string obtained   *)
(* by joining the tokens with one blank) and replayed by the harness into  *)
(* the real entry points with full hook traces.                            *)
(***************************************************************************)
EXTENDS Integers, Sequences, FiniteSets, TLC, Json, CSV
CONSTANTS SeedFile, OutFile, MaxFaults, Sel, MaxToks
VARIABLES idx, toks, nf
vars == <<idx, toks, nf>>

Seeds == ndJsonDeserialize(SeedFile)
Chosen == {i \in 1..Len(Seeds) : Len(Seeds[i].toks) <= MaxToks /\ (Sel = {} \/ i \in Sel)}

\* replacement vocabulary: one representative of every token class the parser distinguishes
Vocab == << <<83,69,76,69,67,84>>, <<70,82,79,77>>, <<87,72,69,82,69>>, <<65,83>>, <<65,78,68>>, <<78,79,84>>, <<78,85,76,76>>, <<73,78>>,
            <<85,78,73,79,78>>, <<67,65,83,69>>, <<69,78,68>>, <<87,72,69,78>>, <<67,82,69,65,84,69>>, <<65,82,82,65,89>>, <<83,84,82,85,67,84>>,
            <<120>>, <<73,78,83,69,82,84>>, <<84,65,66,76,69>>, <<49>>, <<49,46,53>>, <<39,115,39>>, <<98,39,120,39>>, <<64,112>>,
            <<40>>, <<41>>, <<91>>, <<93>>, <<123>>, <<125>>, <<60>>, <<62>>, <<62,62>>, <<60,62>>, <<44>>, <<59>>, <<46>>, <<42>>, <<45>>, <<61>>,
            <<124,62>>, <<64>>, <<45,62>>, <<61,62>> >>
\* lexically malformed lexemes:  1a  'abc  ``  NUL  /*  "\x  0x  "\u12  $  b'
Malformed == << <<49,97>>, <<39,97,98,99>>, <<96,96>>, <<0>>, <<47,42>>, <<34,92,120>>, <<48,120>>, <<34,92,117,49,50>>, <<35>>, <<98,39>> >>
Openers == << <<40>>, <<91>>, <<60>>, <<62,62>>, <<67,65,83,69>>, <<41>>, <<93>> >>

RemoveAt(s, i) == SubSeq(s, 1, i - 1) \o SubSeq(s, i + 1, Len(s))
InsertAt(s, i, x) == SubSeq(s, 1, i) \o <<x>> \o SubSeq(s, i + 1, Len(s))     \* after position i (0 = front)

Init == /\ idx \in Chosen /\ toks = Seeds[idx].toks /\ nf = 0

Fault(t) == /\ nf < MaxFaults /\ nf' = nf + 1 /\ toks' = t /\ UNCHANGED idx
Delete     == \E i \in 1..Len(toks) : Fault(RemoveAt(toks, i))
Duplicate  == \E i \in 1..Len(toks) : Fault(InsertAt(toks, i, toks[i]))
Swap       == \E i \in 1..(Len(toks) - 1) : Fault([toks EXCEPT ![i] = toks[i + 1], ![i + 1] = toks[i]])
Replace    == \E i \in 1..Len(toks), v \in 1..Len(Vocab) : Fault([toks EXCEPT ![i] = Vocab[v]])
Truncate   == \E i \in 0..(Len(toks) - 1) : Fault(SubSeq(toks, 1, i))
InsertBad  == \E i \in 0..Len(toks), m \in 1..Len(Malformed) : Fault(InsertAt(toks, i, Malformed[m]))
Unbalance  == \E i \in 0..Len(toks), o \in 1..Len(Openers) : Fault(InsertAt(toks, i, Openers[o]))
Next == Delete \/ Duplicate \/ Swap \/ Replace \/ Truncate \/ InsertBad \/ Unbalance
Spec == Init /\ [][Next]_vars

RECURSIVE Join(_, _)
Join(ts, i) == IF i > Len(ts) THEN <<>> ELSE (IF i > 1 THEN <<32>> ELSE <<>>) \o ts[i] \o Join(ts, i + 1)
Emit == nf >= 1 => CSVWrite("%1$s", <<ToJson([dir |-> Seeds[idx].dir, buf |-> Join(toks, 1)])>>, OutFile)
=============================================================================
