------------------------------- MODULE Extras -------------------------------
(***************************************************************************)
(* Behaviour of memefish that none of the listed properties speaks about,  *)
(* modelled so that the specification covers the public surface:           *)
(*                                                                         *)
(*  (1) package char: the byte classes and ASCII-only case mapping the     *)
(*      lexer is built on (the same predicates as LexerCore.tla);          *)
(*  (2) ast.Options accessors (Field / BoolField / IntegerField /          *)
(*      StringField): first record with the name wins; NULL -> no value;   *)
(*      a literal of the asked kind -> its value; anything else -> type    *)
(*      mismatch; absent -> not found;                                     *)
(*  (3) MultiError.Error(): the first message plus a count of the others.  *)
(*                                                                         *)
(* The module is a generator: every initial state is one case, the         *)
(* expected observation is computed here and written out; the harness      *)
(* (mfverif extras) replays each case into the real code and compares.     *)
(* It decides no listed property (run by `./check extra`).                 *)
(***************************************************************************)
EXTENDS Integers, Sequences, FiniteSets, TLC, Json, CSV
CONSTANTS OutFile, MaxRecords

\* ---- (1) byte classes ------------------------------------------------------------
IsDigit(c)   == c >= 48 /\ c <= 57
IsOctal(c)   == c >= 48 /\ c <= 55
IsHex(c)     == IsDigit(c) \/ (c >= 97 /\ c <= 102) \/ (c >= 65 /\ c <= 70)
IsLower(c)   == c >= 97 /\ c <= 122
IsUpper(c)   == c >= 65 /\ c <= 90
IsIdStart(c) == IsLower(c) \/ IsUpper(c) \/ c = 95
IsIdPart(c)  == IsIdStart(c) \/ IsDigit(c)
IsPrint(c)   == c >= 32 /\ c <= 126
Upper(c)     == IF IsLower(c) THEN c - 32 ELSE c
\* EqualFold is ASCII-only: bytes >= 128 are equal only to themselves
FoldEq(a, b) == Upper(a) = Upper(b)

\* ---- (2) option records -----------------------------------------------------------
Names  == {"a", "b"}
\* value kinds as the parser builds them from the source text of the value
Values == {"true", "false", "null", "0", "42", "0x1F", "'s'", "''", "x", "1.5"}
KindOf(v) == CASE v \in {"true", "false"} -> "bool" [] v = "null" -> "null" [] v \in {"0", "42", "0x1F"} -> "int"
               [] v \in {"'s'", "''"} -> "string" [] OTHER -> "other"
Records == UNION {[1..n -> Names \X Values] : n \in 0..MaxRecords}
First(rs, name) == IF \E i \in 1..Len(rs) : rs[i][1] = name
                   THEN rs[CHOOSE i \in 1..Len(rs) : rs[i][1] = name /\ \A j \in 1..(i - 1) : rs[j][1] # name][2] ELSE "-"
\* observation classes: notfound / nil / mismatch / <value>
Get(rs, name, kind) ==
  LET v == First(rs, name) IN
    IF v = "-" THEN "notfound"
    ELSE IF KindOf(v) = "null" THEN "nil"
    ELSE IF KindOf(v) # kind THEN "mismatch"
    ELSE CASE v = "0x1F" -> "31" [] v = "'s'" -> "s" [] v = "''" -> "" [] OTHER -> v

\* ---- (3) MultiError ----------------------------------------------------------------
ErrCount == 0..4
ErrText(n) == CASE n = 0 -> "(0 errors)" [] n = 1 -> "E1" [] n = 2 -> "E1 (and 1 other error)"
                [] OTHER -> "E1 (and " \o ToString(n - 1) \o " other errors)"

VARIABLES case
Init == \/ \E c \in 0..255 : case = [t |-> "byte", c |-> c, digit |-> IsDigit(c), octal |-> IsOctal(c), hex |-> IsHex(c), idstart |-> IsIdStart(c),
                                     idpart |-> IsIdPart(c), print |-> IsPrint(c), upper |-> Upper(c)]
        \/ \E a \in 0..255 : \E b \in {a, Upper(a), (a + 32) % 256, (a + 224) % 256, 75, 107, 83, 115} :
             case = [t |-> "fold", a |-> a, b |-> b, eq |-> FoldEq(a, b)]
        \/ \E rs \in Records : case = [t |-> "options", recs |-> [i \in 1..Len(rs) |-> <<rs[i][1], rs[i][2]>>],
                                       found |-> [n \in Names |-> First(rs, n) # "-"],
                                       bool |-> [n \in Names |-> Get(rs, n, "bool")], int |-> [n \in Names |-> Get(rs, n, "int")],
                                       str |-> [n \in Names |-> Get(rs, n, "string")]]
        \/ \E n \in ErrCount : case = [t |-> "multierror", n |-> n, text |-> ErrText(n)]
Next == UNCHANGED case
Spec == Init /\ [][Next]_case
\* design-level sanity: the classes nest the way the lexer relies on
ClassesNest == case.t = "byte" => /\ (case.octal => case.digit) /\ (case.digit => case.hex) /\ (case.digit => case.idpart)
                                   /\ (case.idstart => case.idpart) /\ (case.idpart => case.print)
                                   /\ (case.upper # case.c => IsLower(case.c) /\ IsUpper(case.upper))
FoldIsEquivalence == case.t = "fold" => (case.eq <=> FoldEq(case.b, case.a)) /\ FoldEq(case.a, case.a)
Emit == OutFile # "" => CSVWrite("%1$s", <<ToJson(case)>>, OutFile)
==============================================================================
